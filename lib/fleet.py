"""Free-running fleets recorded and validated against FleetTrace.tla (binding V at the protocol level)."""
import json, os, re
import vlib

ABS = {'ts': -1, 'del': False, 'val': 0}


def convert_run(run):
    """-> (traces per instance for TLC, problems)"""
    nkeys = run['nkeys']
    keys = [str(k) for k in range(1, nkeys + 1)]
    stamps = set()

    def collect(v):
        if v and v.get('ts'):
            stamps.add(v['ts'])
    for evs in run['instances'].values():
        for e in evs:
            if e.get('ts'):
                stamps.add(e['ts'])
            for v in (e.get('db') or {}).values():
                collect(v)
    for img in run['images'].values():
        for v in img.values():
            collect(v)
    rank = {s: i + 1 for i, s in enumerate(sorted(stamps))}
    rank[0] = 0

    def ver(v):
        return {'ts': rank[v['ts']], 'del': v['del'], 'val': 0 if v['del'] else v['val']}

    def full(m):
        return {k: (ver(m[k]) if k in m else ABS) for k in keys}
    traces, problems = [], list(run.get('problems') or [])
    for inst, evs in sorted(run['instances'].items()):
        stores = [e for e in evs if e['kind'] == 'store']
        def krank(e):
            # equal transaction ids: an (empty) LS write transaction precedes the application commit that reused its id;
            # a native SendOnce is a read transaction of the last committed id; content reads come last
            if e['kind'] == 'merge' or (e['kind'] == 'sendtxn' and not run['native']):
                return 0
            return {'app': 1, 'sendtxn': 2, 'proj': 3}[e['kind']]
        rest = sorted([e for e in evs if e['kind'] != 'store'], key=lambda e: (e['txn'], krank(e), e['order']))
        out = []
        for e in rest:
            if e['kind'] == 'app':
                if run['native']:
                    out.append({'kind': 'app', 'k': str(e['k']), 'ver': {'ts': rank[e['ts']], 'del': e['val'] == -1, 'val': 0 if e['val'] == -1 else e['val']}, 'val': 0})
                else:
                    out.append({'kind': 'app', 'k': str(e['k']), 'val': e['val'], 'ver': ABS})
            elif e['kind'] == 'merge':
                img = run['images'].get(e['name'])
                if img is None:
                    problems.append('instance %s merged %s which was never stored by an instance of this fleet' % (inst, e['name']))
                    img = {}
                out.append({'kind': 'merge', 'lc': bool(e.get('lc')), 'now': rank.get(e.get('ts', 0), 0), 'img': full(img)})
            elif e['kind'] == 'sendtxn':
                # the store that follows this transaction (if the Store succeeded before the run ended)
                st = [s for s in stores if s['order'] > e['order']]
                nxt = [x for x in rest if x['kind'] == 'sendtxn' and x['order'] > e['order']]
                name = st[0]['name'] if st and (not nxt or st[0]['order'] < nxt[0]['order']) else None
                img = run['images'].get(name) if name else None
                out.append({'kind': 'sendtxn', 'now': rank.get(e.get('ts', 0), 0), 'stored': img is not None, 'img': full(img or {})})
            elif e['kind'] == 'proj':
                out.append({'kind': 'proj', 'db': full(e.get('db') or {}), 'app': {k: (e.get('app') or {}).get(k, -1) for k in keys}})
        traces.append(out)
    return traces, problems, len(rank)


def validate(c, prop, tier):
    d = vlib.scratch('fleet-')
    p = os.path.join(d, 'fleet.json')
    res = vlib.run_harness(['fleet', p, tier], timeout=1500)
    c.evaluations += res['evaluations']
    runs = json.load(open(p))
    for ri, run in enumerate(runs):
        traces, problems, nranks = convert_run(run)
        for pr in problems:
            c.violation('fleet run: %s' % pr, {'run': ri}, {'prop': prop, 'class': 'fleet-problem'})
        fp = os.path.join(d, 'fleet_trace.json')
        json.dump({'traces': traces}, open(fp, 'w'))
        cfg = 'FleetTrace_native.cfg' if run['native'] else 'FleetTrace_shadow.cfg'
        r = vlib.tlc('FleetTrace', cfg, workers=1, timeout=900, files=[fp], keep=True)
        c.states += r.distinct
        c.transitions += r.generated
        if r.violation == 'NotAccepted':
            c.traces += len(traces)
        elif getattr(r, 'timeout', False):
            vlib.cleanup(r)
            raise vlib.Inconclusive('TLC timeout on a fleet trace')
        else:
            m = re.findall(r'"fleet-progress", (\d+)', r.out)
            pos = int(m[-1]) if m else 0
            ti, li = pos // 100000, pos % 100000
            ev = traces[ti - 1][li - 1] if 0 < ti <= len(traces) and 0 < li <= len(traces[ti - 1]) else None
            prev = traces[ti - 1][max(0, li - 6):li - 1] if ev else None
            c.violation('free-running fleet (%s mode): the transaction log of instance %d is not explained by the specification at event %d: %s'
                        % ('native' if run['native'] else 'shadow', ti, li, json.dumps(ev)[:400]),
                        {'instance': ti, 'position': li, 'event': ev, 'previous': prev}, {'prop': prop, 'class': 'fleet-trace-rejected', 'kind': (ev or {}).get('kind')})
        vlib.cleanup(r)
        # C01 on the real fleet: after the quiet period all instances hold the same content
        finals = [json.dumps(run['final'][i].get('db'), sort_keys=True) for i in sorted(run['final'])]
        if len(set(finals)) != 1:
            c.violation('free-running fleet: instances differ after the quiet period: %s' % finals, {'run': ri}, {'prop': prop, 'class': 'fleet-not-converged'})
    c.tlc_runs.append({'config': 'FleetTrace (trace validation)', 'fleet_runs': len(runs)})
