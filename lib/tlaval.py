"""Parser for TLA+ values as printed by TLC (state dumps, simulation files).

Records -> dict, functions (a :> b @@ c :> d) -> dict (or list of [k, v] pairs
when a key is not a scalar), sequences -> list, sets -> {"$set": [...]} unless
flat_sets is given (then a sorted list), strings -> str, integers -> int,
TRUE/FALSE -> bool, model values / identifiers -> str.
"""
import re

_tok = re.compile(r'''
    \s*(
      "(?:[^"\\]|\\.)*"        |   # string
      -?\d+                    |   # integer
      <<|>>|\|->|:>|@@|\[|\]|\{|\}|\(|\)|,|/\\ |
      [A-Za-z_][A-Za-z0-9_!]*
    )''', re.X)


class P:
    def __init__(self, s, flat_sets=True):
        self.toks = _tok.findall(s)
        rest = _tok.sub('', s).strip()
        if rest:
            raise ValueError('tla parse: unexpected text %r' % rest[:60])
        self.i = 0
        self.flat = flat_sets

    def peek(self):
        return self.toks[self.i] if self.i < len(self.toks) else None

    def eat(self, t=None):
        x = self.peek()
        if t is not None and x != t:
            raise ValueError('tla parse: expected %r got %r at %d' % (t, x, self.i))
        self.i += 1
        return x

    def value(self):
        t = self.peek()
        if t == '<<':
            self.eat()
            out = []
            while self.peek() != '>>':
                out.append(self.value())
                if self.peek() == ',':
                    self.eat()
            self.eat('>>')
            return out
        if t == '{':
            self.eat()
            out = []
            while self.peek() != '}':
                out.append(self.value())
                if self.peek() == ',':
                    self.eat()
            self.eat('}')
            return out if self.flat else {'$set': out}
        if t == '[':
            self.eat()
            out = {}
            while self.peek() != ']':
                k = self.eat()
                self.eat('|->')
                out[k] = self.value()
                if self.peek() == ',':
                    self.eat()
            self.eat(']')
            return out
        if t == '(':
            self.eat()
            pairs = []
            while True:
                k = self.value()
                self.eat(':>')
                v = self.value()
                pairs.append((k, v))
                if self.peek() == '@@':
                    self.eat()
                    continue
                break
            self.eat(')')
            if all(isinstance(k, (str, int)) and not isinstance(k, bool) for k, _ in pairs):
                return {str(k): v for k, v in pairs}
            return [[k, v] for k, v in pairs]
        if t is None:
            raise ValueError('tla parse: unexpected end')
        self.eat()
        if t[0] == '"':
            return bytes(t[1:-1], 'utf-8').decode('unicode_escape')
        if re.fullmatch(r'-?\d+', t):
            return int(t)
        if t == 'TRUE':
            return True
        if t == 'FALSE':
            return False
        return t


def parse_value(s, flat_sets=True):
    p = P(s, flat_sets)
    v = p.value()
    if p.peek() is not None:
        raise ValueError('tla parse: trailing tokens %r' % p.toks[p.i:p.i + 5])
    return v


def parse_state(s, flat_sets=True):
    """Parse a conjunction '/\\ x = v /\\ y = w' into {x: v, y: w}."""
    out = {}
    parts = re.split(r'(?:^|\n)\s*/\\ ', '\n' + s.strip())
    for part in parts:
        part = part.strip()
        if not part:
            continue
        m = re.match(r'([A-Za-z_][A-Za-z0-9_]*)\s*=\s*(.*)\Z', part, re.S)
        if not m:
            raise ValueError('tla parse: bad conjunct %r' % part[:60])
        out[m.group(1)] = parse_value(m.group(2), flat_sets)
    return out


def parse_sim_file(text, flat_sets=True):
    """Parse a `-simulate file=` behaviour: list of (action_label, state)."""
    out = []
    blocks = re.split(r'\n\\\* <', '\n' + text)
    for b in blocks[1:]:
        m = re.match(r'(.*?) line \d+.*?>\s*\nSTATE_\d+ ==\s*\n(.*?)(?:\n\s*\n|\n=+|\Z)', b, re.S)
        if not m:
            continue
        out.append((m.group(1).strip(), parse_state(m.group(2), flat_sets)))
    return out


def parse_dot(text, flat_sets=True):
    """Parse `-dump dot,actionlabels`: returns (nodes{id:state}, edges[(src,dst,label)], init ids)."""
    nodes, edges, inits = {}, [], []
    for line in text.splitlines():
        m = re.match(r'(-?\d+) -> (-?\d+) \[label="((?:[^"\\]|\\.)*)",', line)
        if m:
            edges.append((m.group(1), m.group(2), re.sub(r'\\(.)', lambda q: q.group(1), m.group(3))))
            continue
        m = re.match(r'(-?\d+) \[label="((?:[^"\\]|\\.)*)"(,style = filled)?[,\]]', line)
        if m:
            lab = re.sub(r'\\(.)', lambda q: '\n' if q.group(1) == 'n' else q.group(1), m.group(2))
            nodes[m.group(1)] = parse_state(lab, flat_sets)
            if m.group(3):
                inits.append(m.group(1))
    return nodes, edges, inits


if __name__ == '__main__':
    import sys, json
    t = open(sys.argv[1]).read()
    if 'digraph' in t:
        n, e, i = parse_dot(t)
        print(json.dumps({'nodes': n, 'edges': e, 'inits': i}, indent=1)[:3000])
    else:
        print(json.dumps(parse_sim_file(t), indent=1)[:3000])


def parse_error_trace(out, flat_sets=True):
    """Parse the counterexample TLC prints on stdout: list of (label, state)."""
    res = []
    blocks = re.split(r'\nState \d+: ', '\n' + out)
    for b in blocks[1:]:
        m = re.match(r'<(.*?)>\s*\n(.*?)(?:\n\s*\n|\Z)', b, re.S)
        if not m:
            continue
        lab = re.sub(r' line \d+.*', '', m.group(1)).strip()
        try:
            res.append((lab, parse_state(m.group(2), flat_sets)))
        except ValueError:
            break
    return res
