"""Common machinery of the /verif checks: TLC runs, harness build/run, evidence, known findings."""
import json, os, re, shutil, subprocess, sys, tempfile, time, hashlib, glob

VERIF = os.path.dirname(os.path.dirname(os.path.abspath(__file__)))
REPO = os.environ.get('VERIF_REPO', '/repo')
SPEC = os.path.join(VERIF, 'spec')
BUILD = os.path.join(VERIF, '.build')
EVID = os.path.join(VERIF, 'evidence')
REPLAY = os.path.join(VERIF, 'replays')
sys.path.insert(0, os.path.dirname(os.path.abspath(__file__)))
import tlaval  # noqa


class Inconclusive(Exception):
    pass


def goenv():
    e = dict(os.environ)
    e['GOFLAGS'] = '-mod=mod'
    e['GOPROXY'] = 'off'
    e.pop('GOTOOLCHAIN', None)
    e.pop('GOSUMDB', None)
    e.pop('GOWORK', None)
    return e


def scratch(prefix='verif-'):
    base = os.environ.get('VERIF_SCRATCH') or os.path.join(BUILD, 'scratch-%d' % os.getpid())
    os.makedirs(base, exist_ok=True)
    return tempfile.mkdtemp(prefix=prefix, dir=base)


_built = {}


def build_harness(race=False):
    """Build the Go harness from the current /repo working tree with -tags verif."""
    key = 'race' if race else 'plain'
    if key in _built:
        return _built[key]
    os.makedirs(BUILD, exist_ok=True)
    h = os.path.join(VERIF, 'harness')
    shutil.copyfile(os.path.join(REPO, 'go.sum'), os.path.join(h, 'go.sum'))
    gm = open(os.path.join(REPO, 'go.mod')).read()
    gm = gm.replace('module github.com/PowerDNS/lightningstream', 'module verif/harness', 1)
    gm += ('\nrequire github.com/PowerDNS/lightningstream v0.0.0\n\n'
           'replace github.com/PowerDNS/lightningstream => %s\n' % REPO)
    with open(os.path.join(h, 'go.mod'), 'w') as f:
        f.write(gm)
    out = os.path.join(BUILD, ('harness-race' if race else 'harness') + '.%d' % os.getpid())
    cmd = ['go', 'build', '-tags', 'verif', '-o', out]
    if race:
        cmd.append('-race')
    cmd.append('./cmd/harness')
    t0 = time.time()
    p = subprocess.run(cmd, cwd=h, env=goenv(), capture_output=True, text=True)
    if p.returncode != 0:
        sys.stderr.write(p.stdout + p.stderr)
        raise Inconclusive('harness build failed')
    _built[key] = out
    sys.stderr.write('[build] harness%s %.1fs\n' % (' (race)' if race else '', time.time() - t0))
    return out


def run_harness(args, stdin_obj=None, timeout=1800, race=False, env_extra=None, cwd=None, crash_prop=None):
    """Run the harness; stdin JSON in, stdout JSON out (last line that parses as JSON object)."""
    exe = build_harness(race)
    env = goenv()
    env['VERIF_SEED'] = str(seed())
    env['VERIF_TMP'] = scratch('h-')
    if env_extra:
        env.update(env_extra)
    inp = json.dumps(stdin_obj) if stdin_obj is not None else None
    for attempt in range(3):
        try:
            p = subprocess.run([exe] + list(args), input=inp, capture_output=True, text=True,
                               timeout=timeout, env=env, cwd=cwd)
        except subprocess.TimeoutExpired:
            raise Inconclusive('harness timeout: %s' % ' '.join(args))
        if p.returncode != 4:
            break
        # exit status 4 = the harness's own watchdog: a work item made no progress (seen once: all workers parked in
        # runtime.GC() called by SendOnce, a stall of the Go runtime, not of Lightning Stream) - run it again
        sys.stderr.write('[harness] watchdog exit (attempt %d): %s\n%s\n' % (attempt + 1, ' '.join(args), p.stderr[:1500]))
    if p.returncode == 2 and crash_prop and ('panic:' in p.stderr or 'fatal error:' in p.stderr) and 'lightningstream' in p.stderr:
        # the driver process itself died of a Go panic raised inside Lightning Stream (e.g. in a background
        # goroutine of the receiver): for properties about crashes that is the observation, not a broken driver
        i = p.stderr.find('panic:')
        if i < 0:
            i = p.stderr.find('fatal error:')
        return {'evaluations': 1, 'distinct': 0, 'traces': 1, 'samples': [], 'counters': {'process_crashes': 1},
                'mismatches': [{'what': 'the process crashed while running %s: %s' % (' '.join(args[:1]), p.stderr[i:i + 700].replace('\n', ' | ')),
                                'case': {'driver': list(args)[:1], 'stderr': p.stderr[i:i + 3000]},
                                'sig': {'prop': crash_prop, 'class': 'process-crash', 'driver': list(args)[0]}}]}
    if p.returncode != 0:
        sys.stderr.write(p.stderr[:3000] + '\n...\n' + p.stderr[-3000:] if len(p.stderr) > 6000 else p.stderr)
        raise Inconclusive('harness exit %d: %s' % (p.returncode, ' '.join(args)))
    try:
        return json.loads(p.stdout)
    except Exception:
        sys.stderr.write(p.stdout[-2000:] + p.stderr[-2000:])
        raise Inconclusive('harness output not JSON: %s' % ' '.join(args))


def seed():
    try:
        return int(os.environ.get('VERIF_SEED', '1'))
    except ValueError:
        return 1


def tier(argv_tier=None):
    return argv_tier or os.environ.get('VERIF_TIER') or 'quick'


class TLCResult:
    def __init__(self):
        self.generated = 0
        self.distinct = 0
        self.depth = 0
        self.ok = False
        self.violation = None  # name of violated invariant/property
        self.out = ''
        self.wall = 0.0
        self.dir = None
        self.coverage = {}


def tlc(module, cfg, workers=8, timeout=600, extra=None, simulate=None, dump=False,
        files=(), keep=False, coverage=False, deadlock=False, jvm=None, defines=None):
    """Run TLC on spec/<module>.tla with spec/<cfg> in a scratch copy of the spec dir.

    simulate: dict(num=, depth=, file=True) -> '-simulate num=..[,file=..] -depth ..'
    dump: True -> '-dump dot,actionlabels graph.dot'
    defines: dict name -> TLA text, appended as an extra module MC_<module>Defs? (not used)
    Returns TLCResult; result.dir is the scratch dir (removed unless keep).
    """
    d = scratch('tlc-')
    for f in glob.glob(os.path.join(SPEC, '*.tla')):
        shutil.copy(f, d)
    cfgsrc = cfg if os.path.isabs(cfg) else os.path.join(SPEC, cfg)
    shutil.copy(cfgsrc, os.path.join(d, 'run.cfg'))
    for f in files:
        shutil.copy(f, d)
    cmd = ['timeout', str(int(timeout)), 'java', '-XX:+UseParallelGC', '-Xss64m',
           '-Djava.io.tmpdir=' + d]
    if jvm:
        cmd += jvm
    cmd += ['-cp', '/opt/veriftools/tla/tla2tools.jar:/opt/veriftools/tla/CommunityModules-deps.jar',
            'tlc2.TLC', '-workers', str(workers), '-metadir', os.path.join(d, 'meta'),
            '-config', 'run.cfg', '-nowarning']
    if not deadlock:
        pass  # deadlock checking is controlled by CHECK_DEADLOCK in the cfg
    if simulate:
        s = 'num=%d' % simulate['num']
        if simulate.get('file'):
            s = 'file=%s,' % os.path.join(d, 'sim') + s
        cmd += ['-simulate', s, '-depth', str(simulate['depth']), '-seed', str(simulate.get('seed', seed()))]
    if dump:
        cmd += ['-dump', 'dot,actionlabels', os.path.join(d, 'graph.dot')]
    if coverage:
        cmd += ['-coverage', '1']
    if extra:
        cmd += extra
    cmd.append(module + '.tla')
    t0 = time.time()
    p = subprocess.run(cmd, cwd=d, capture_output=True, text=True)
    r = TLCResult()
    r.wall = time.time() - t0
    r.out = p.stdout + p.stderr
    r.dir = d
    r.rc = p.returncode
    m = re.findall(r'(\d+) states generated, (\d+) distinct states found', r.out)
    if m:
        r.generated, r.distinct = int(m[-1][0]), int(m[-1][1])
    m = re.search(r'The number of states generated: (\d+)', r.out)
    if m and simulate:
        r.generated = int(m.group(1))
        r.distinct = r.distinct or 0
    m = re.search(r'depth of the complete state graph search is (\d+)', r.out)
    if m:
        r.depth = int(m.group(1))
    m = re.search(r'Invariant (\S+) is violated', r.out)
    if m:
        r.violation = m.group(1)
    m2 = re.search(r'(Temporal properties were violated|Action property (\S+) is violated|Deadlock reached|The postcondition .* is violated|Assumption .* is false)', r.out)
    if m2 and not r.violation:
        r.violation = m2.group(2) or m2.group(1)
    r.ok = (p.returncode == 0) and r.violation is None and 'Error:' not in r.out
    if p.returncode == 124:
        r.timeout = True
    else:
        r.timeout = False
    if not keep and r.ok and not simulate and not dump:
        shutil.rmtree(d, ignore_errors=True)
        r.dir = None
    return r


def tlc_must_pass(module, cfg, **kw):
    r = tlc(module, cfg, **kw)
    if getattr(r, 'timeout', False):
        raise Inconclusive('TLC timeout on %s/%s' % (module, cfg))
    if not r.ok:
        sys.stderr.write(r.out[-6000:])
        raise Inconclusive('TLC reports an error on %s/%s: %s (a model-level failure; the model must '
                           'be repaired or the counterexample replayed)' % (module, cfg, r.violation))
    return r


def cleanup(r):
    if r is not None and getattr(r, 'dir', None):
        shutil.rmtree(r.dir, ignore_errors=True)
        r.dir = None


def sim_behaviours(r):
    """Yield parsed behaviours [(label, state)...] of a simulate run."""
    for f in sorted(glob.glob(os.path.join(r.dir, 'sim_*'))):
        yield tlaval.parse_sim_file(open(f).read())


def graph(r):
    return tlaval.parse_dot(open(os.path.join(r.dir, 'graph.dot')).read())


def graph_paths(nodes, edges, inits, key='act'):
    """BFS tree over the dumped graph; returns for every edge a behaviour (list of states from an
    initial state to the edge's target) that ends with that edge.  Edges are covered by the
    minimal number of root-to-leaf walks: every edge = BFS path to its source + the edge."""
    from collections import deque
    adj = {}
    for s, t, l in edges:
        adj.setdefault(s, []).append((t, l))
    parent = {}
    dq = deque()
    for i in inits:
        parent[i] = None
        dq.append(i)
    order = []
    while dq:
        n = dq.popleft()
        order.append(n)
        for t, l in adj.get(n, []):
            if t not in parent:
                parent[t] = (n, l)
                dq.append(t)

    def path_to(n):
        p = []
        while n is not None:
            pr = parent[n]
            p.append((pr[1] if pr else 'Init', n))
            n = pr[0] if pr else None
        p.reverse()
        return p
    return parent, path_to, adj


# ---------------------------------------------------------------- known findings

def known_findings(pid):
    p = os.path.join(VERIF, 'known-findings.json')
    if not os.path.exists(p):
        return []
    return [k for k in json.load(open(p)) if k.get('property') == pid and k.get('status') == 'open']


def match_known(pid, sig):
    """sig: dict; an open entry matches when every key of its signature is matched by sig
    (entry value may be a list of admissible values)."""
    for k in known_findings(pid):
        ok = True
        for kk, vv in k['signature'].items():
            sv = sig.get(kk)
            if isinstance(vv, list):
                if sv not in vv:
                    ok = False
            elif sv != vv:
                ok = False
        if ok:
            return k
    return None


# ---------------------------------------------------------------- check driver

class Check:
    def __init__(self, pid, tier_, level='model_checking'):
        self.pid = pid
        self.tier = tier_
        self.level = level
        self.t0 = time.time()
        self.states = 0
        self.transitions = 0
        self.traces = 0
        self.evaluations = 0
        self.distinct = 0
        self.samples = []
        self.assumptions = []
        self.extra = {}
        self.violations = []   # (sig, what, replay_obj)
        self.known = []
        self.notes = []
        self.tlc_runs = []

    def add_tlc(self, name, r):
        self.states += r.distinct
        self.transitions += r.generated
        self.tlc_runs.append({'config': name, 'distinct_states': r.distinct, 'states_generated': r.generated,
                              'depth': r.depth, 'wall_s': round(r.wall, 1)})

    def sample(self, s, limit=6):
        if len(self.samples) < limit:
            self.samples.append(s)

    def violation(self, what, replay_obj, sig=None):
        sig = sig or {}
        k = match_known(self.pid, sig) if sig else None
        if k is not None:
            if not any(x[0]['what'] == k['what'] for x in self.known):
                self.known.append((k, what))
            return False
        self.violations.append((sig, what, replay_obj))
        return True

    def finish(self):
        os.makedirs(EVID, exist_ok=True)
        wall = time.time() - self.t0
        cov = {
            'states': self.states, 'transitions': self.transitions,
            'traces_validated_against_impl': self.traces,
            'evaluations': self.evaluations, 'distinct_nontrivial': self.distinct,
            'samples': self.samples or ['(none)'],
            'tlc_runs': self.tlc_runs,
        }
        cov.update(self.extra)
        ev = {'property_id': self.pid, 'tier': self.tier, 'seed': seed(), 'level': self.level,
              'coverage': cov, 'assumptions': self.assumptions, 'wall_s': round(wall, 2),
              'violations': len(self.violations),
              'known_findings': [k['what'] for k, _ in self.known]}
        evdir = os.path.join(BUILD, 'evidence-scratch') if os.environ.get('VERIF_NO_EVIDENCE') else EVID
        os.makedirs(evdir, exist_ok=True)
        json.dump(ev, open(os.path.join(evdir, self.pid + '.json'), 'w'), indent=1, default=str)
        for k, what in self.known:
            print('KNOWN-FINDING: property=%s %s' % (self.pid, k['what']))
        if self.violations:
            os.makedirs(REPLAY, exist_ok=True)
            seen = set()
            for sig, what, obj in self.violations[:20]:
                h = hashlib.sha1(json.dumps([sig, what], sort_keys=True, default=str).encode()).hexdigest()[:10]
                if h in seen:
                    continue
                seen.add(h)
                path = os.path.join(REPLAY, '%s-%s.json' % (self.pid, h))
                json.dump({'property': self.pid, 'what': what, 'signature': sig, 'case': obj},
                          open(path, 'w'), indent=1, default=str)
                print('VIOLATION property=%s replay=%s' % (self.pid, path))
                print('  ' + what[:400])
            return 1
        print('OK property=%s tier=%s states=%d transitions=%d impl_traces=%d evaluations=%d wall=%.1fs' % (
            self.pid, self.tier, self.states, self.transitions, self.traces, self.evaluations, wall))
        return 0


def cleanup_all():
    shutil.rmtree(os.path.join(BUILD, 'scratch-%d' % os.getpid()), ignore_errors=True)
    for k, v in _built.items():
        try:
            os.unlink(v)
        except OSError:
            pass


def absorb(c, res, traces_key=None):
    """Fold a harness result document into the check."""
    c.evaluations += res.get('evaluations', 0)
    c.distinct += res.get('distinct', 0)
    c.traces += res.get('traces', 0)
    hc = c.extra.setdefault('harness_counters', {})
    for k, v in res.get('counters', {}).items():
        hc[k] = hc.get(k, 0) + v
    for s in res.get('samples', []):
        c.sample(s)
    for m in res.get('mismatches', []):
        c.violation(m['what'], m['case'], m.get('sig') or {})
    if res.get('sig_counts'):
        c.extra.setdefault('mismatch_signatures', {}).update(res['sig_counts'])


def table_check(c, module, cfg, cmd, workers=8, tlc_timeout=900, harness_timeout=3000, args=(), race=False, jvm=None):
    r = tlc_must_pass(module, cfg, workers=workers, timeout=tlc_timeout, keep=True, jvm=jvm)
    c.add_tlc(cfg, r)
    try:
        res = run_harness([cmd, r.dir, c.tier] + list(args), timeout=harness_timeout, race=race, crash_prop=c.pid)
    finally:
        cleanup(r)
    absorb(c, res)
    if not res.get('traces'):
        # table-style binding: every exported row is one implementation test derived from the specification
        c.traces += res.get('distinct', 0)
        c.extra['table_rows_executed'] = res.get('distinct', 0)
    return res
