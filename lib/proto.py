"""Protocol-level replay: TLC behaviours of LSProtocol.tla -> real Syncer instances."""
import json, os
import vlib, tlaval


def fn(x):
    """TLA function with domain of small naturals -> dict str->value (sequence or :> form)."""
    if isinstance(x, list):
        return {str(i + 1): v for i, v in enumerate(x)}
    if isinstance(x, dict):
        return {str(k): v for k, v in x.items()}
    raise ValueError(x)


def convert_state(lbl, st):
    act = dict(st['act'])
    if 'img' in act:
        act['img'] = fn(act['img']) if act['img'] != [] else {}
    db = {i: fn(v) for i, v in fn(st['db']).items()}
    app = {i: fn(v) for i, v in fn(st['app']).items()}
    return {'act': act, 'db': db, 'app': app}


def behaviours_from_sim(r):
    out = []
    for beh in vlib.sim_behaviours(r):
        out.append([convert_state(l, s) for l, s in beh])
    return out


def dedupe(behs):
    seen, out = set(), []
    for b in behs:
        k = json.dumps([s['act'] for s in b], sort_keys=True)
        if k not in seen:
            seen.add(k)
            out.append(b)
    return out


def replay(c, behs, native, nkeys, insts, drain=True, padding=False, timeout=3000, sweeper_cut=False, dupsort_opt=False):
    d = vlib.scratch('proto-')
    p = os.path.join(d, 'in.json')
    json.dump({'native': native, 'nkeys': nkeys, 'insts': insts, 'drain': drain, 'padding': padding, 'sweeper_cut': sweeper_cut, 'dupsort_opt': dupsort_opt,
               'behaviours': behs}, open(p, 'w'))
    return vlib.run_harness(['proto', p], timeout=timeout)


def simulate(c, cfg, num, depth, workers=4, timeout=600, module='LSProtocol'):
    per = max(1, num // workers)
    r = vlib.tlc(module, cfg, workers=workers, timeout=timeout,
                 simulate={'num': per, 'depth': depth, 'file': True, 'seed': vlib.seed()})
    if getattr(r, 'timeout', False) or (r.rc != 0 and r.violation is None and 'Error' in r.out):
        raise vlib.Inconclusive('TLC simulation failed on %s' % cfg)
    behs = dedupe(behaviours_from_sim(r))
    c.tlc_runs.append({'config': cfg, 'mode': 'simulate', 'behaviours': len(behs), 'depth': depth,
                       'states_generated': r.generated, 'wall_s': round(r.wall, 1)})
    c.transitions += r.generated
    vlib.cleanup(r)
    return behs


def behaviour_from_error_trace(r):
    tr = tlaval.parse_error_trace(r.out)
    return [convert_state(l, s) for l, s in tr]


def absorb_filtered(c, res, prop, extra_props=()):
    """Report conformance divergences and the monitors of this property; count the rest."""
    keep = {'conformance', prop} | set(extra_props)
    other = 0
    for m in res.get('mismatches', []):
        p = (m.get('sig') or {}).get('prop')
        if p in keep:
            c.violation(m['what'], m['case'], m.get('sig') or {})
        elif p == 'readiness':
            # behaviour the specification covers beyond the listed properties (start tracker / health endpoint):
            # a divergence is reported as a note and recorded, it is not a violation of a listed property
            notes = c.extra.setdefault('beyond_properties', [])
            if len(notes) < 5:
                notes.append(m['what'][:300])
            if not getattr(c, '_noted_readiness', False):
                c._noted_readiness = True
                print('NOTE: specification and code diverge outside the listed properties (start tracker): %s' % m['what'][:300])
        else:
            other += 1
    c.evaluations += res.get('evaluations', 0)
    c.distinct += res.get('distinct', 0)
    c.traces += res.get('traces', 0)
    hc = c.extra.setdefault('harness_counters', {})
    for k, v in res.get('counters', {}).items():
        hc[k] = hc.get(k, 0) + v
    if other:
        hc['monitor_hits_of_other_properties'] = hc.get('monitor_hits_of_other_properties', 0) + other
    for s in res.get('samples', []):
        c.sample(s)


# (cfg, native, nkeys, insts, exhaustive?, sim behaviours quick, thorough, depth)
SUITE = [
    ('LSProtocol_native.cfg', True, 1, [1, 2], True, 300, 3000, 14),
    ('LSProtocol_shadow_f3.cfg', False, 1, [1, 2], True, 300, 3000, 14),
    ('LSProtocol_shadow_design.cfg', False, 1, [1, 2], True, 0, 0, 0),
    ('LSProtocol_shadow.cfg', False, 1, [1, 2], True, 200, 2000, 14),
    ('LSProtocol_sim_native.cfg', True, 2, [1, 2, 3], False, 300, 4000, 24),
    ('LSProtocol_sim_shadow.cfg', False, 2, [1, 2, 3], False, 300, 4000, 24),
]


def run_suite(c, prop, extra_props=(), only=None, padding_too=False):
    thorough = c.tier == 'thorough'
    for cfg, native, nkeys, insts, exh, nq, nt, depth in SUITE:
        if only and cfg not in only:
            continue
        if exh:
            if thorough and cfg == 'LSProtocol_native.cfg':
                r = vlib.tlc_must_pass('LSProtocol', 'LSProtocol_native3.cfg', workers=16, timeout=3000)
                c.add_tlc('LSProtocol_native3.cfg', r)
            r = vlib.tlc_must_pass('LSProtocol', cfg, workers=16 if thorough else 8, timeout=1500)
            c.add_tlc(cfg, r)
        n = nt if thorough else nq
        if n:
            behs = simulate(c, cfg, n, depth)
            res = replay(c, behs, native, nkeys, insts)
            absorb_filtered(c, res, prop, extra_props)
            if padding_too and native:
                res = replay(c, behs[:max(50, n // 4)], native, nkeys, insts, padding=True)
                absorb_filtered(c, res, prop, extra_props)
            if padding_too and not native:
                # option dupsort_hack switched on while no DBI is a dupsort DBI: nothing may change
                res = replay(c, behs[:max(50, n // 4)], native, nkeys, insts, dupsort_opt=True)
                absorb_filtered(c, res, prop, extra_props)
