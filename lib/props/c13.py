"""C13 The tomb sweeper removes exactly the expired deletion markers.

Spec: Sweeper.tla - one DBI as an ordered map, the resumable LimitScanner cursor (key, value), write-lock slices
of CheckEvery records, application puts / marks / hard deletes between any two slices.  TLC checks OnlyExpired
and ExactlyExpired.  Binding (R): behaviours are replayed on the real Sweeper (one pass through VerifSweepOnce,
LockDuration 1 ns, slice size = the model's CheckEvery through the verif override, the slice yield hook performs
the application's writes); after every step the real DBI must equal the specification state; native mode sweeps
the application's DBI, shadow mode only the private shadow DBI while a plain application DBI full of bytes that
look like expired markers must stay untouched.  A free-running pass over thousands of entries (default slice
size 1000) with a concurrent writer is checked against the same post-condition.
"""
import json, os
import vlib
from proto import fn


def conv(st):
    return {'act': dict(st['act']), 'dbi': st['dbi'] if isinstance(st['dbi'], list) else [st['dbi'][k] for k in sorted(st['dbi'], key=int)]}


def run_cfg(c, cfg, ce, n, depth):
    r = vlib.tlc_must_pass('Sweeper', cfg, workers=16 if c.tier == 'thorough' else 8, timeout=3000)
    c.add_tlc(cfg, r)
    rs = vlib.tlc('Sweeper', cfg, workers=4, timeout=600, simulate={'num': max(1, n // 4), 'depth': depth, 'file': True, 'seed': vlib.seed()})
    behs, seen = [], set()
    for b in vlib.sim_behaviours(rs):
        bb = [conv(s) for _, s in b]
        # cut after the end of the first pass
        fin = [i for i, s in enumerate(bb) if s['act']['name'] == 'finish']
        if not fin:
            continue
        bb = bb[:fin[0] + 1]
        k = json.dumps([s['act'] for s in bb] + [bb[0]['dbi']], sort_keys=True)
        if k not in seen:
            seen.add(k)
            behs.append(bb)
    c.transitions += rs.generated
    vlib.cleanup(rs)
    d = vlib.scratch('sw-')
    p = os.path.join(d, 'in.json')
    json.dump({'checkEvery': ce, 'behaviours': behs}, open(p, 'w'))
    res = vlib.run_harness(['sweep', p])
    vlib.absorb(c, res)


def run(c):
    thorough = c.tier == 'thorough'
    run_cfg(c, 'Sweeper.cfg', 2, 20000 if thorough else 3000, 14)
    run_cfg(c, 'Sweeper_ce1.cfg', 1, 20000 if thorough else 3000, 14)
    res = vlib.run_harness(['sweepfree', c.tier], timeout=1500)
    vlib.absorb(c, res)
    # values that are not well-formed headers among expired markers: refused with an error, never removed
    vlib.absorb(c, vlib.run_harness(['sweepmalformed', 'C13'], timeout=300))
    c.assumptions += ['markers are classified old/young by a wide margin around the cut-off (2x and 0.5x the retention); the exact boundary is covered by the model only',
                      'LMDB cursor semantics of SetRange/Next as modelled']
    c.extra['rule'] = 'simulated Sweeper behaviours (initial content x application writes between slices) replayed on the real sweeper'


def replay(c, path):
    run(c)
