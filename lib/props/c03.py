"""C03 A committed local application write is never destroyed by syncing.

Spec: LSLoop.tla - syncLoop/LoadOnce/SendOnce between yield points with LMDB transaction ids, application
commits at every point where LS does not hold the write lock, remote snapshots, crash/restart.
Invariant NoLocalLoss (shadow), action property LSNeverBackwards (both modes).  Binding (R): the real
syncLoop goroutine is stepped from yield point to yield point (hook verifYield); the harness performs the
application commits exactly where the TLC behaviour prescribes, compares LMDB content, LastTxnID and the
loop's transaction-id variables after every step and evaluates NoLocalLoss on the real application DBI.
The named deviation (commit between an empty LS write transaction and env.Info()) is a known finding:
TLC's counterexample is replayed on the real code.
"""
import loopx, proto, vlib


def run(c):
    loopx.run_suite(c, 'C03', full_thorough=True)
    # option receive-only (shadow mode still captures the application's changes; nothing is stored)
    loopx.run_extra(c, 'C03', 'recvonly')
    # protocol level with the tomb sweeper configured (stale-marker rule of Merge): an LS step may only
    # replace a stored version by one that wins against it
    thorough = c.tier == 'thorough'
    behs = proto.simulate(c, 'LSProtocol_native_cut.cfg', 3000 if thorough else 400, 14)
    res = proto.replay(c, behs, True, 1, [1, 2], drain=False, sweeper_cut=True)
    proto.absorb_filtered(c, res, 'C03')
    behs = proto.simulate(c, 'LSProtocol_shadow_f3.cfg', 2000 if thorough else 300, 14)
    res = proto.replay(c, behs, False, 1, [1, 2], drain=False)
    proto.absorb_filtered(c, res, 'C03')
    # the same steps on DBIs of several hundred entries with values of very different lengths (pages split and
    # records move while LS iterates and writes): content against the per-key last-writer-wins reference
    vlib.absorb(c, vlib.run_harness(['bulk', 'C03'], timeout=600))
    c.assumptions += ['"running" starts after the start-up capture; changes made while LS is down are stamped 1 ns (documented)',
                      'shadow mode sees net changes between two LS transactions', 'one instance + environment; one key (quick)']
    c.extra['rule'] = 'simulated behaviours of LSLoop (deduplicated) replayed through the real sync loop; distinct = behaviours longer than 6 steps'


def replay(c, path):
    run(c)
