"""C14 Values written by Lightning Stream always carry a well-formed header.

Spec: Header.tla (layout, Parse/Skip outcomes, what LS writes).  Binding: (T) every row (total length,
version, flags, extension count incl. 8191/8192/65535, truncation class) is concretised as raw bytes and
run through header.Parse/Skip/Bytes/PutBasic; an independent reader written from docs/schema-native.md is the
oracle.  Monitor part: every value the real NativeIterator writes for the whole TLC-evaluated Merge table
(C02, incl. unknown flag bits and the padding option) and every raw value found in a native or shadow DBI
after every step of the protocol replays must be well-formed: version 0, only synced flags, reserved bytes
zero, extension count matching, transaction id of the writing transaction, empty value when deleted.
"""
import vlib, proto


def run(c):
    thorough = c.tier == 'thorough'
    vlib.table_check(c, 'Header', 'Header.cfg', 'c14', workers=1, tlc_timeout=600)
    # a reader of stored values beside the iterators: the tomb sweeper must refuse values of another header version,
    # with an extension count beyond the bytes present or too short - not misread them as expired markers
    vlib.absorb(c, vlib.run_harness(['sweepmalformed', 'C14'], timeout=300))
    # the write side: all Merge/Clean table rows on the real iterator (values checked by WellFormedLSWrite)
    r = vlib.tlc_must_pass('MergeLaws', 'MergeLaws.cfg', workers=8, timeout=900, keep=True)
    c.add_tlc('MergeLaws.cfg', r)
    try:
        res = vlib.run_harness(['c02', r.dir, 'rows-only'], timeout=1800)
    finally:
        vlib.cleanup(r)
    for m in res['mismatches']:
        if 'C14:' in m['what'] or 'malformed' in m['what']:
            c.violation(m['what'], m['case'], {'prop': 'C14', 'class': 'ls-write'})
    c.evaluations += res['evaluations']
    c.distinct += res['distinct']
    # every value in every DBI after every step of protocol replays
    for cfg, native, nk, insts in (('LSProtocol_native.cfg', True, 1, [1, 2]), ('LSProtocol_shadow_f3.cfg', False, 1, [1, 2])):
        behs = proto.simulate(c, cfg, 2000 if thorough else 250, 14)
        res = proto.replay(c, behs, native, nk, insts, drain=False, padding=native)
        proto.absorb_filtered(c, res, 'C14')
    c.assumptions += ['bytes inside a class (payload, timestamps, transaction ids) are sampled with VERIF_SEED']
    c.extra['rule'] = 'header shape rows x raw-byte concretisation; all Merge-table rows written by the real iterator; every stored value after every protocol step'


def replay(c, path):
    run(c)
