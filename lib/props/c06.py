"""C06 Every snapshot is the complete image of one committed LMDB transaction.

Spec: LSDump.tla (the dump pinned to one transaction against an application committing multi-DBI transactions
between any two reads; native = read transaction, shadow = write transaction) and LSProtocol.tla (Upload's
image).  Binding (R): every interleaving produced by TLC is replayed on the real SendOnce using
hooks.BeforeRead and hooks.FilterReadDBI as in-transaction yield points; the harness is the application and
records the raw content after each of its commits, so the decoded blob is compared with the content of exactly
the pinned transaction (two DBIs with different flags, 511-byte and integer keys, empty and 128 kB values,
extension blocks written by others, markers).  Protocol replays add the per-upload image check
(markers, empty values, no private DBIs, name/metadata).
"""
import json, os
import vlib, proto


def conv(st):
    return {'act': dict(st['act']), 'lastTxn': st['lastTxn'], 'pin': st['pin']}


def run(c):
    thorough = c.tier == 'thorough'
    # inside the sync loop: every snapshot the stepped real loop stores is decoded - content, names, and the
    # transaction its metadata names (adjusted after an empty write transaction) against LSLoop's bucket
    import loopx
    loopx.run_suite(c, 'C06', with_window=False, exhaustive=False)
    for cfg, native in (('LSDump_native.cfg', True), ('LSDump_shadow.cfg', False)):
        r = vlib.tlc_must_pass('LSDump', cfg, workers=4, timeout=600)
        c.add_tlc(cfg, r)
        rs = vlib.tlc('LSDump', cfg, workers=4, timeout=600,
                      simulate={'num': 2000 if thorough else 400, 'depth': 16, 'file': True, 'seed': vlib.seed()})
        behs, seen = [], set()
        for b in vlib.sim_behaviours(rs):
            bb = [conv(s) for _, s in b]
            # cut after the last finished dump
            last = max([i for i, s in enumerate(bb) if s['act']['name'] == 'finish'] or [0])
            bb = bb[:last + 1]
            k = json.dumps([s['act'] for s in bb], sort_keys=True)
            if last and k not in seen:
                seen.add(k)
                behs.append(bb)
        c.transitions += rs.generated
        vlib.cleanup(rs)
        d = vlib.scratch('dump-')
        p = os.path.join(d, 'in.json')
        json.dump({'native': native, 'behaviours': behs}, open(p, 'w'))
        res = vlib.run_harness(['dump', p])
        vlib.absorb(c, res)
    # image clauses on protocol behaviours (markers, empty values, metadata, private DBIs)
    for cfg, native, nk, insts in (('LSProtocol_native.cfg', True, 1, [1, 2]), ('LSProtocol_shadow_f3.cfg', False, 1, [1, 2]),
                                   ('LSProtocol_sim_native.cfg', True, 2, [1, 2, 3])):
        behs = proto.simulate(c, cfg, 2000 if thorough else 250, 16)
        res = proto.replay(c, behs, native, nk, insts, drain=False)
        proto.absorb_filtered(c, res, 'C06')
    # the same steps on DBIs of several hundred entries with values of very different lengths (pages split and
    # records move while LS iterates and writes): content against the per-key last-writer-wins reference
    vlib.absorb(c, vlib.run_harness(['bulk', 'C06'], timeout=600))
    c.assumptions += ['wall clock does not step backwards between two snapshots of one instance',
                      'shadow mode: the application cannot commit while the dump holds the write lock (LMDB single writer)']
    c.extra['rule'] = 'TLC interleavings of application commits with the steps of the dump, replayed on the real SendOnce through its in-transaction hooks'


def replay(c, path):
    run(c)
