"""C17 Concurrent components neither race nor deadlock.

Spec: Topic.tla (publisher, subscribers receiving / closing at any moment - also from another goroutine while a
value is being delivered -, topic mutex, unbuffered rendezvous and one-slot buffer), Receiver.tla / Climit (token
pools, see C16), LSLoop/LSDump (loop and dump vs. application).  TLC checks CloseNeverWedges and MutexSane on the
topic model (and shows that the plain blocking send - the code as it was - wedges).  Binding (R): every sequence
of call starts of the complete TLC state graph is executed on the real Topic with one goroutine per process; after
every call start the goroutines run until blocked and the set of calls still in progress, the results of Next and
the values received must be one of the settled states the specification allows for that sequence.  climit: seeded
schedules of acquire / multi-goroutine multi-release with the token count compared with the model; global storage:
every order of set and get in a fresh process; cancellation: real fleets (receiver, downloaders, cleaner, sweeper,
application writers) are cancelled and no goroutine may stay parked.  Data races: all of these drivers and the
C16 trace driver are also run under the Go race detector (the detector, not TLC, is the oracle there).
"""
import json, os, collections
import vlib


EXT = ('StartPublish', 'StartNext', 'StartClose', 'StartHandle', 'CancelHandle')


def obs_of(st, subs, handlers=()):
    hst = st.get('hst') or {}
    if not isinstance(hst, dict):
        hst = {}
    incall = sorted((['pub'] if st['ppc'] in ('wantMu', 'sending') else [])
                    + [s for s in subs if s not in handlers and st['spc'][s] == 'next']
                    + [s for s in handlers if hst.get(s) in ('wantSub', 'running', 'closing')])
    inclose = sorted([s for s in subs if s not in handlers and st['cpc'][s] == 'wantMu'])
    # a handler's result is known when Handle has returned; until then the driver reports "none"
    lastret = {s: (st['lastRet'][s] if s not in handlers else (st['lastRet'][s] if hst.get(s) == 'returned' else 'none')) for s in subs}
    return json.dumps({'inCall': incall, 'inClose': inclose, 'lastRet': lastret,
                       'got': {s: st['got'][s] for s in subs}}, sort_keys=True)


def topic_conformance(c, cfg, subs, buffered, handlers=()):
    r = vlib.tlc('Topic', cfg, workers=1, timeout=600, dump=True, keep=True)
    if not r.ok:
        vlib.cleanup(r)
        raise vlib.Inconclusive('TLC rejects %s: %s' % (cfg, r.violation))
    c.add_tlc(cfg, r)
    nodes, edges, inits = vlib.graph(r)
    vlib.cleanup(r)
    ext_adj = collections.defaultdict(list)
    int_adj = collections.defaultdict(list)
    for s, t, l in edges:
        if s == t:
            continue
        (ext_adj if l.startswith(EXT) else int_adj)[s].append((t, l))

    def settle(states):
        seen, stack, out = set(states), list(states), set()
        while stack:
            n = stack.pop()
            if not int_adj.get(n):
                out.add(n)
            for t, _ in int_adj.get(n, []):
                if t not in seen:
                    seen.add(t)
                    stack.append(t)
        return out

    def label_act(l):
        if l.startswith('StartPublish'):
            return {'a': 'publish', 's': ''}
        args = [x.strip().strip('"') for x in l[l.index('(') + 1:l.index(')')].split(',')]
        if l.startswith('StartHandle'):
            return {'a': 'handle', 's': args[0], 'k': int(args[1])}
        if l.startswith('CancelHandle'):
            return {'a': 'cancel', 's': args[0]}
        return {'a': 'next' if l.startswith('StartNext') else 'close', 's': args[0]}

    # enumerate every sequence of call starts
    seqs = []
    start = frozenset(settle(inits))

    def rec(cur, seq):
        acts = collections.defaultdict(set)
        for n in cur:
            for t, l in ext_adj.get(n, []):
                acts[l].add(t)
        if seq:
            seqs.append(list(seq))
        for l, ts in sorted(acts.items()):
            rec(frozenset(settle(ts)), seq + [l])
    rec(start, [])
    maximal = [s for s in seqs if not any(len(o) > len(s) and o[:len(s)] == s for o in seqs)]
    d = vlib.scratch('topic-')
    p = os.path.join(d, 'in.json')
    json.dump({'subs': subs, 'buffered': buffered, 'sequences': [[label_act(l) for l in s] for s in maximal]}, open(p, 'w'))
    def execute(seq_list, mult):
        json.dump({'subs': subs, 'buffered': buffered, 'handlers': list(handlers),
                   'sequences': [[label_act(l) for l in s] for s in seq_list]}, open(p, 'w'))
        return vlib.run_harness(['topic', p], timeout=1500, env_extra={'VERIF_SETTLE_MULT': str(mult)})['extra']['results']

    def judge(seq_labels, rr):
        """None if the observations are explained, else (class, message, replay, signature)."""
        if rr.get('panic'):
            return ('real Topic: a goroutine panics during the call starts %s: %s' % (seq_labels, rr['panic']),
                    {'sequence': seq_labels}, {'prop': 'C17', 'class': 'topic-panic'})
        if not rr['settled']:
            raise vlib.Inconclusive('goroutine status did not settle')
        cur = set(start)
        for i, l in enumerate(seq_labels):
            nxt = set()
            for n in cur:
                for t, ll in ext_adj.get(n, []):
                    if ll == l:
                        nxt.add(t)
            if not nxt:
                break  # on the branch the real run took (map iteration order) this call cannot be started: rest not applicable
            cur = settle(nxt)
            o = rr['obs'][i]
            key = json.dumps({'inCall': o['inCall'] or [], 'inClose': o['inClose'] or [], 'lastRet': o['lastRet'], 'got': o['got']}, sort_keys=True)
            cur = {n for n in cur if obs_of(nodes[n], subs, handlers) == key}
            c.evaluations += 1
            if not cur:
                wedge = 'close' if o['inClose'] else 'other'
                return ('real Topic: after the call starts %s the goroutines settle with calls in progress %s, Close in progress %s, results %s - no settled state of the specification matches'
                        % ([x for x in seq_labels[:i + 1]], o['inCall'], o['inClose'], o['lastRet']),
                        {'sequence': seq_labels[:i + 1], 'obs': o}, {'prop': 'C17', 'class': 'topic-behaviour', 'wedge': wedge})
        return None

    results = execute(maximal, 1)
    suspects = [s for s, rr in zip(maximal, results) if judge(s, rr) is not None]
    bad = 0
    if suspects:
        # an observation taken before the goroutines were really blocked looks like a mismatch: the suspects are
        # executed again with a six times longer settle window, and only what fails again is reported
        c.extra['topic_reexecuted'] = c.extra.get('topic_reexecuted', 0) + len(suspects)
        for s, rr in zip(suspects, execute(suspects, 6)):
            v = judge(s, rr)
            if v is not None:
                bad += 1
                c.violation(*v)
    c.traces += len(maximal)
    c.distinct += len(maximal)
    c.sample({'topic_sequence': maximal[len(maximal) // 2]})
    return bad


def run(c):
    thorough = c.tier == 'thorough'
    topic_conformance(c, 'Topic.cfg', ['A', 'B'], ['B'])
    # Topic.Handle: a callback that fails on its k-th value, a cancelled context, next to a plain subscriber
    topic_conformance(c, 'Topic_handle.cfg', ['A', 'H'], [], handlers=['H'])
    if thorough:
        topic_conformance(c, 'Topic3.cfg', ['A', 'B', 'C'], ['B'])
    # the code as it was: the plain blocking send wedges (documentation of finding F5; must be a violation of the model)
    r = vlib.tlc('Topic', 'Topic_asis.cfg', workers=1, timeout=300)
    c.extra['asis_model_wedges'] = (r.violation == 'CloseNeverWedges')
    # Sync returning by itself (run-once) with the caller's context still open: nothing it started stays behind
    res = vlib.run_harness(['onlyonce'], timeout=900)
    res['mismatches'] = [m for m in res['mismatches'] if (m.get('sig') or {}).get('prop') == 'C17']
    vlib.absorb(c, res)
    for cmd in ('climit', 'globalstorage', 'cancel-leak'):
        res = vlib.run_harness([cmd], timeout=900)
        vlib.absorb(c, res)
    # race detector runs (oracle: the Go race detector)
    for cmd, args in (('climit', []), ('cancel-leak', []), ('recvcorrupt', [])):
        try:
            res = vlib.run_harness([cmd] + args, timeout=1500, race=True)
        except vlib.Inconclusive as e:
            exe = vlib.build_harness(race=True)
            import subprocess
            p = subprocess.run([exe, cmd] + args, capture_output=True, text=True, env=vlib.goenv(), timeout=1500)
            if 'DATA RACE' in p.stderr:
                c.violation('the Go race detector reports a data race while running %s: %s' % (cmd, p.stderr[p.stderr.index('DATA RACE'):][:600]),
                            {'driver': cmd}, {'prop': 'C17', 'class': 'data-race', 'driver': cmd})
                continue
            raise
        c.evaluations += res.get('evaluations', 0)
        c.extra.setdefault('race_detector_runs', []).append(cmd)
    c.assumptions += ['goroutine status is observed after it settled (7.5 ms stable; a mismatching sequence is executed again with a 45 ms window before it is reported); a status that does not settle is inconclusive',
                      'data races: the race detector is the oracle, schedules below the granularity of the model are only sampled']
    c.extra['rule'] = 'every maximal sequence of call starts of the Topic state graph on the real Topic; seeded climit schedules; fresh-process global-storage orders; cancelled fleets'


def replay(c, path):
    run(c)
