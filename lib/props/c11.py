"""C11 Shadow mode mirrors application data faithfully in both directions.

Spec: LSData.MainToShadow/ShadowToMain, LSProtocol in shadow mode (action properties MirrorFaithful and
CaptureFaithful).  TLC shows the design (MirrorDropsEmpty = FALSE) satisfies both; the model of the code
as it is (MirrorDropsEmpty = TRUE) violates MirrorFaithful, and the counterexample is replayed on the
real code (finding F3: empty application values are removed by shadowToMain).  Binding (R): protocol
behaviours (byte keys with NUL/0xff/511 bytes, MDB_INTEGERKEY 4/8 bytes incl. key 0) through
SendOnce/LoadOnce with the real application DBI compared against the live projection of the real shadow DBI.
"""
import vlib, proto


def run(c):
    thorough = c.tier == 'thorough'
    proto.run_suite(c, 'C11', only=['LSProtocol_shadow_f3.cfg', 'LSProtocol_shadow_design.cfg', 'LSProtocol_shadow.cfg', 'LSProtocol_sim_shadow.cfg'])
    # option receive-only: the capture of the application's changes still happens (LSLoop with ReceiveOnly; the model
    # is checked exhaustively under C03), replayed on the real loop
    import loopx
    loopx.run_extra(c, 'C11', 'recvonly', exhaustive=False)
    # the mirror passes on every kind of application DBI (plain, integer keys incl. values whose byte order differs
    # from their numeric order, duplicate keys with the dupsort hack): capture, snapshot, mirror on a fresh receiver
    vlib.absorb(c, vlib.run_harness(['converge-kinds', 'C11'], timeout=300))
    # the model of the code as it is must violate MirrorFaithful; replay TLC's counterexample on the code
    r = vlib.tlc('LSProtocol', 'LSProtocol_shadow_f3_mirror.cfg', workers=1, timeout=600, keep=True)
    if r.violation == 'MirrorFaithful':
        beh = proto.behaviour_from_error_trace(r)
        res = proto.replay(c, [beh], False, 1, [1, 2], drain=False)
        hits = [m for m in res['mismatches'] if (m.get('sig') or {}).get('class') == 'mirror-drops-empty-value']
        proto.absorb_filtered(c, res, 'C11')
        c.extra['f3_counterexample_reproduced_on_code'] = bool(hits)
        if not hits and not res['mismatches']:
            # the code no longer follows the as-is model: the divergence above would have been reported
            c.notes.append('F3 counterexample not reproduced')
    elif r.ok:
        c.extra['f3_counterexample_reproduced_on_code'] = False
    vlib.cleanup(r)
    # finding F10: reading an empty application value behind an even-length key crashes inside lmdb-go (child process)
    res = vlib.run_harness(['rawread-probe'], timeout=300)
    vlib.absorb(c, res)
    # the same steps on DBIs of several hundred entries with values of very different lengths (pages split and
    # records move while LS iterates and writes): content against the per-key last-writer-wins reference
    vlib.absorb(c, vlib.run_harness(['bulk', 'C11'], timeout=600))
    c.assumptions += ['steady state: syncer running (start-up capture with timestamp 1 is outside the property)',
                      'shadow stamps compared up to order-isomorphism', 'net changes between two LS transactions (DESIGN.md s.7)']
    c.extra['rule'] = 'shadow-mode protocol behaviours replayed on real Syncers under 3 value and 7 key concretisations'


def replay(c, path):
    run(c)
