"""C08 Hostile or corrupt snapshot blobs cannot crash, hang or block an instance.

Spec: Wire.tla (hostile encodings must yield an error: wrong wire types at every level, group wire types) and
Receiver.tla (a blob that failed to decode is ignored from then on; the newest decodable snapshot of every
instance is still delivered - checked with C16's machinery).  Binding (T): the hostile rows plus byte-level
mutations of valid messages (truncation at every byte, six byte values and eight adversarial varints up to
2^64-1 spliced in at every position, random bytes, corrupt gzip containers) are fed to snapshot.LoadData and a
full iteration under a watchdog with an allocation ceiling; a panic, a watchdog expiry or excessive allocation
is the violation.  (R) the real Receiver against a bucket holding corrupt blobs among valid ones.
"""
import vlib


def run(c):
    vlib.table_check(c, 'Wire', 'Wire.cfg', 'c08', workers=1, tlc_timeout=600, harness_timeout=3000)
    res = vlib.run_harness(['recvcorrupt'], timeout=600, crash_prop='C08')
    vlib.absorb(c, res)
    # the merge side: a valid snapshot with millions of keyless entries through the real LoadOnce (child process)
    vlib.absorb(c, vlib.run_harness(['hostile-merge'], timeout=600))
    c.assumptions += ['time and memory bounds are checked by watchdog (10 s) and allocation ceiling (96 MB + 200 x input), not proved']
    c.extra['rule'] = 'hostile rows of the specification + exhaustive single-position mutations of small valid messages + seeded garbage'


def replay(c, path):
    run(c)
