"""C04 Deletions propagate and deleted keys are not resurrected.

Spec: LSProtocol.tla (LSNeverBackwards, MergeDominates, NoBounce; with and without a load cut-off) and
Retention.tla (integer model of the two retention cut-offs).  Binding: (R) protocol behaviours replayed
through real Syncers - after every merge the real store must dominate every version of the merged
snapshot (a marker at T leaves the key absent from the application's view unless a newer version is
there), uploaded snapshots must carry every marker; with the sweeper configured, markers older than the
load cut-off must not be re-created; (T) Retention rows and 20 000 seeded configurations on the real
config.Sweeper methods.
"""
import vlib, proto


def run(c):
    thorough = c.tier == 'thorough'
    proto.run_suite(c, 'C04', extra_props=('C06',), only=['LSProtocol_native.cfg', 'LSProtocol_shadow_f3.cfg', 'LSProtocol_sim_native.cfg', 'LSProtocol_sim_shadow.cfg'])
    # sweeper configured: load cut-off between abstract timestamps 1 and 2
    r = vlib.tlc_must_pass('LSProtocol', 'LSProtocol_native_cut.cfg', workers=16 if thorough else 8, timeout=1500)
    c.add_tlc('LSProtocol_native_cut.cfg', r)
    behs = proto.simulate(c, 'LSProtocol_native_cut.cfg', 3000 if thorough else 400, 14)
    res = proto.replay(c, behs, True, 1, [1, 2], drain=False, sweeper_cut=True)
    proto.absorb_filtered(c, res, 'C04', ('C06',))
    # arithmetic of the cut-offs
    vlib.table_check(c, 'Retention', 'Retention.cfg', 'retention', workers=1, tlc_timeout=300)
    # unbounded lift of the arithmetic with the TLA+ proof system (all retentions >= 0, all cut-offs, all times)
    import subprocess, shutil, os, re
    d = vlib.scratch('tlaps-')
    shutil.copy(os.path.join(vlib.SPEC, 'RetentionProof.tla'), d)
    try:
        pr = subprocess.run(['timeout', '300', 'tlapm', '--threads', '8', 'RetentionProof.tla'], cwd=d, capture_output=True, text=True)
        m = re.search(r'All (\d+) obligations? proved', pr.stdout + pr.stderr)
        c.extra['tlaps'] = {'module': 'RetentionProof.tla', 'obligations_proved': int(m.group(1)) if m else 0,
                            'theorems': ['LoadNotLonger', 'LoadAtLeastQuarter', 'NoBounceArith']}
        if not m:
            c.notes.append('tlapm did not prove RetentionProof.tla: ' + (pr.stdout + pr.stderr)[-300:])
            c.extra['tlaps']['output'] = (pr.stdout + pr.stderr)[-300:]
    except Exception as e:  # the bounded TLC result and the binding remain what is claimed
        c.extra['tlaps'] = {'error': str(e)}
    c.assumptions += ['retention_days >= 0 (DESIGN.md s.7)', 'real durations are compared with the integer model within 1 s / 1e-6 (float32 RetentionDays)',
                      't_load is the time LoadOnce reads before taking the write lock']
    c.extra['rule'] = 'protocol behaviours with deletions replayed on real Syncers; retention grid rows + seeded random sweeper configurations'


def replay(c, path):
    run(c)
