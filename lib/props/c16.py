"""C16 Every instance's newest snapshot is eventually delivered, within memory limits.

Spec: Receiver.tla - listing loop, one downloader per instance (signal channel of capacity 1), the two token
pools, the waiting map and the consumer; faults: failing List/Load, vanished blob, undecodable blob.  TLC checks
TokensAccounted (never more than configured, nothing leaks, a superseded waiting snapshot gives its token back),
IgnoredForGood, DeliversDecodable and, under weak fairness with a bounded environment, the liveness property
Delivered.  Binding (V): the real Receiver with its real goroutines is driven by seeded random external
actions (publish good/corrupt, remove, list ok/fail, release a gated Load ok/fail, Next, Close); after every action
the goroutines run until blocked and the observable state (waiting snapshots, Load calls parked at the gate, tokens
held) is recorded; TLC validates every recorded trace against ReceiverTrace.tla (unlogged downloader steps are
silent actions).  Run-once termination and liveness with corrupt blobs are checked on free-running receivers;
run-once is also part of LSLoop.tla (constant OnlyOnce, action Exit, invariant ExitOnlyWhenDone) and its behaviours
are replayed through the real loop (the loop must return exactly where the specification says, not earlier).
"""
import json, os
import vlib


def validate_traces(c, n_hint, mult=1):
    d = vlib.scratch('recv-')
    p = os.path.join(d, 'recv_traces.json')
    res = vlib.run_harness(['recvtrace', p, c.tier], timeout=3000, env_extra={'VERIF_SETTLE_MULT': str(mult)})
    vlib.absorb(c, res)
    traces = json.load(open(p))
    # TLC: batches of traces, acceptance = invariant NotAccepted violated
    bs = 10
    for b0 in range(0, len(traces), bs):
        batch = traces[b0:b0 + bs]
        bp = os.path.join(d, 'batch')
        os.makedirs(bp, exist_ok=True)
        json.dump(batch, open(os.path.join(bp, 'recv_traces.json'), 'w'))
        r = vlib.tlc('ReceiverTrace', 'ReceiverTrace.cfg', workers=1, timeout=900,
                     files=[os.path.join(bp, 'recv_traces.json')], keep=True,
                     jvm=['-Dtlc2.tool.queue.IStateQueue=StateDeque'])
        c.states += r.distinct
        c.transitions += r.generated
        if r.violation == 'NotAccepted':
            c.traces += len(batch)
        elif r.violation in ('TokensAccounted', 'IgnoredForGood', 'DeliversDecodable'):
            c.violation('recorded receiver trace violates %s' % r.violation, batch, {'prop': 'C16', 'class': 'trace-invariant', 'inv': r.violation})
        elif getattr(r, 'timeout', False):
            vlib.cleanup(r)
            raise vlib.Inconclusive('TLC timeout validating receiver traces')
        else:
            # rejected: find the trace and position
            for ti, tr in enumerate(batch):
                json.dump([tr], open(os.path.join(bp, 'recv_traces.json'), 'w'))
                r1 = vlib.tlc('ReceiverTrace', 'ReceiverTrace.cfg', workers=1, timeout=600,
                              files=[os.path.join(bp, 'recv_traces.json')], jvm=['-Dtlc2.tool.queue.IStateQueue=StateDeque'])
                if r1.violation != 'NotAccepted':
                    # longest accepted prefix
                    lo = 0
                    for k in range(len(tr), 0, -1):
                        json.dump([tr[:k]], open(os.path.join(bp, 'recv_traces.json'), 'w'))
                        r2 = vlib.tlc('ReceiverTrace', 'ReceiverTrace.cfg', workers=1, timeout=300,
                                      files=[os.path.join(bp, 'recv_traces.json')], jvm=['-Dtlc2.tool.queue.IStateQueue=StateDeque'])
                        if r2.violation == 'NotAccepted':
                            lo = k
                            break
                    ev = tr[lo] if lo < len(tr) else tr[-1]
                    if mult == 1:
                        # an observation taken before the goroutines were really blocked looks like a rejected trace:
                        # record again with a five times longer settle window; only a rejection there is reported
                        c.extra['rerecorded_after_rejection'] = True
                        vlib.cleanup(r)
                        return validate_traces(c, n_hint, mult=5)
                    c.violation('recorded behaviour of the real Receiver is not a behaviour of Receiver.tla: after %d accepted events the event %s with observation %s is not explained'
                                % (lo, {k: v for k, v in ev.items() if k != 'obs'}, ev['obs']), tr[:lo + 1],
                                {'prop': 'C16', 'class': 'trace-rejected', 'ev': ev['ev']})
                    break
        vlib.cleanup(r)


def run(c):
    thorough = c.tier == 'thorough'
    r = vlib.tlc_must_pass('Receiver', 'Receiver.cfg', workers=16 if thorough else 8, timeout=3000)
    c.add_tlc('Receiver.cfg', r)
    validate_traces(c, 0)
    res = vlib.run_harness(['recvcorrupt'], timeout=900, crash_prop='C16')
    for m in res['mismatches']:
        m['sig']['prop'] = 'C16'
    vlib.absorb(c, res)
    res = vlib.run_harness(['onlyonce'], timeout=900)
    res['mismatches'] = [m for m in res['mismatches'] if (m.get('sig') or {}).get('prop') != 'C17']   # goroutines left behind: C17
    vlib.absorb(c, res)
    # run-once at loop level: LSLoop with only_once - the loop returns exactly when nothing is left to wait for
    import loopx
    loopx.run_extra(c, 'C16', 'once')
    # settings under which the property cannot hold are refused by Config.Check (what the daemon runs first)
    _g = vlib.run_harness(['config-gate'], timeout=120)
    _g['mismatches'] = [m for m in _g['mismatches'] if (m.get('sig') or {}).get('prop') in ('C16', 'conformance')]
    vlib.absorb(c, _g)
    c.assumptions += ['the recorded state is observed after the goroutines settled (stable for 30 ms; after a rejection everything is recorded again with a 150 ms window and only a rejection there is reported); a state that does not settle is inconclusive',
                      'transient failures: bounded number of faults in the liveness model']
    c.extra['rule'] = 'seeded random external actions on the real Receiver; each trace = 60-80 events, validated by TLC'


def replay(c, path):
    run(c)
