"""C18 A snapshot is merged all-or-nothing, for every supported format version.

Spec: LoadAtomic.tla - LoadOnce's transaction step by step (per-DBI gates and merges, failure at any DBI for
reasons malformed entry / full map / cancellation, mirror, commit or abort) with a concurrent reader; TLC checks
ReadersSeeWhole, AbortRestores, SuccessMerges and tabulates the gates (format version 0..4 x compatibility
version 0..4 x transform x dupsort flag x native/shadow x DBI exists x private DBI).  Binding: (T) every gate row
as a real snapshot through LoadOnce on a real LMDB with a byte-exact dump and LastTxnID before/after (refused =>
unchanged; merged => content incl. the version-1 meaning of an empty value; private DBIs ignored; unreadable
versions refused whatever the snapshot contains); (R) failure injection: a malformed entry in DBI j at entry e,
cancellation at the n-th check (counting context), maps that fill at successive points; a concurrent reader
comparing a generation key across DBIs while successful and failing snapshots are merged.
"""
import vlib


def run(c):
    vlib.table_check(c, 'LoadAtomic', 'LoadAtomic.cfg', 'c18', workers=2, tlc_timeout=600, harness_timeout=3000)
    # the meaning of format versions 1..3 entry by entry: the rows of the Merge table (MergeLaws.tla, remote-merge use)
    # through the real LoadOnce - stored version x incoming entry x format version, incl. equal timestamps
    vlib.table_check(c, 'MergeLaws', 'MergeLaws.cfg', 'c02', workers=4, tlc_timeout=600, harness_timeout=1500, args=['loadonce-only'])
    c.assumptions += ['LMDB provides MVCC isolation of read transactions (exercised, not verified)', 'shadow-mode rows run with dupsort_hack enabled']
    c.extra['rule'] = '1200 gate rows x real LoadOnce; 12 malformed-entry positions, 8 cancellation points, 7 (thorough 32) map sizes per mode; reader transactions during 30 merges per mode'


def replay(c, path):
    run(c)
