"""C09 Every committed local change gets published.

Spec: LSLoop.tla - syncLoop/LoadOnce/SendOnce between yield points with LMDB transaction ids, application
commits at every point where LS does not hold the write lock, remote snapshots, crash/restart.
Invariant PublishedWhenIdle incl. Store failures below the retry budget.  Binding (R): the real
syncLoop goroutine is stepped from yield point to yield point (hook verifYield); the harness performs the
application commits exactly where the TLC behaviour prescribes, compares LMDB content, LastTxnID and the
loop's transaction-id variables after every step and evaluates PublishedWhenIdle on the decoded newest own blob at every idle point.
The named deviation (commit between an empty LS write transaction and env.Info()) is a known finding:
TLC's counterexample is replayed on the real code.
"""
import loopx


import vlib


def run(c):
    loopx.run_suite(c, 'C09')
    # run-once: the loop may return only after the upload decision of the iteration in which nothing is left to wait
    # for (LSLoop Exit / ExitOnlyWhenDone, model checked under C16) - a commit made while LS was down is published first
    loopx.run_extra(c, 'C09', 'once', extra_props=('C16',), exhaustive=False)
    # storage_retry_forever: more Store failures than storage_retry_count, then success
    import vlib
    vlib.absorb(c, vlib.run_harness(['retry-forever'], timeout=300))
    # the same steps on DBIs of several hundred entries with values of very different lengths (pages split and
    # records move while LS iterates and writes): content against the per-key last-writer-wins reference
    vlib.absorb(c, vlib.run_harness(['bulk', 'C09'], timeout=600))
    # settings under which the property cannot hold are refused by Config.Check (what the daemon runs first)
    _g = vlib.run_harness(['config-gate'], timeout=120)
    _g['mismatches'] = [m for m in _g['mismatches'] if (m.get('sig') or {}).get('prop') in ('C09', 'conformance')]
    vlib.absorb(c, _g)
    c.assumptions += ['"running" starts after the start-up capture; changes made while LS is down are stamped 1 ns (documented)',
                      'shadow mode sees net changes between two LS transactions', 'one instance + environment; one key (quick)']
    c.extra['rule'] = 'simulated behaviours of LSLoop (deduplicated) replayed through the real sync loop; distinct = behaviours longer than 6 steps'


def replay(c, path):
    run(c)
