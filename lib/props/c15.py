"""C15 Snapshot names round-trip and sort chronologically.

Spec: Names.tla - Build/Parse at the character level over an abstract alphabet (letter, dash, underscore, dot,
other, a whole timestamp, the registered extension), the sanitiser, the listing prefix.  TLC checks the
round-trip, sanitiser, cross-database and "whatever parses re-builds exactly" laws and exports one row per
structured name.  Binding (T): every row is concretised (several letters/digits, spaces, NUL, invalid UTF-8,
multi-byte characters, timestamps from 1970 to 2262) and run through ParseName/BuildName; the sanitiser is
exercised through the real Syncer (instanceID) with the rows and seeded arbitrary strings; chronological order
and exact timestamp round-trip are checked on sorted seeded timestamps in several time zones.
"""
import vlib


def run(c):
    vlib.table_check(c, 'Names', 'Names.cfg', 'c15', workers=1, tlc_timeout=900)
    # a consumer of the names: the real cleaner on evolving listings that also hold other databases' snapshots,
    # unparsable names and files of our own database that are of another registered kind - none of them may be
    # taken for a snapshot (deleted, or counted as an instance's newest snapshot)
    from props import c12
    c12.run_cfg(c, 'Cleaner.cfg', 1, 2, 600, 16, exhaustive=False, only_class='deleted-foreign')
    c.assumptions += ['breadth over real strings and timestamps comes from seeded sampling inside the abstract classes']
    c.extra['rule'] = 'structured abstract names (<=5 parts from 9 part shapes x 4 extension shapes) concretised; seeded instance names and timestamps'


def replay(c, path):
    run(c)
