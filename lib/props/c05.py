"""C05 Published data is never lost from the bucket.

Spec: LSLoop.tla (crash at every yield point, restart with the LMDB kept or emptied, Store failures within and
beyond the retry budget, delivery of the instance's own old snapshot; action properties
NoUploadBeforeOwnMerged and BucketMonotone) and Cleaner.tla (what a cleaning run may delete; see C12).
Binding (R): the real sync loop is stepped through the yield hooks, crashed by unwinding the goroutine at the
yield point and restarted on the same or an emptied LMDB; every stored blob is decoded and compared with the
previous newest one; the guard "own old snapshot merged before anything is stored" is evaluated on the real run.
The start-up decisions are also explored with another instance's snapshot lying in the bucket (initial upload
skipped, waiting set, readiness flags of the start tracker compared after every step).
"""
import loopx
from props import c12


import vlib


def run(c):
    loopx.run_suite(c, 'C05', with_window=False)
    # start-up with another instance's snapshot already in the bucket (hasSnapshots, waitingForInstances, start tracker)
    loopx.run_extra(c, 'C05', 'ready')
    # cleaners: what a cleaning run may delete (Cleaner.tla), replayed on the real cleaner.Worker
    c12.run_cfg(c, 'Cleaner.cfg', 1, 2, 20000 if c.tier == 'thorough' else 2000, 16)
    # settings under which the property cannot hold are refused by Config.Check (what the daemon runs first)
    _g = vlib.run_harness(['config-gate'], timeout=120)
    _g['mismatches'] = [m for m in _g['mismatches'] if (m.get('sig') or {}).get('prop') in ('C05', 'conformance')]
    vlib.absorb(c, _g)
    c.assumptions += ['application writes are monotone per key per instance', 'versions that arrived from another instance stay available in that instance\'s snapshot',
                      'cleaner interaction is decided by the Cleaner model (C12): it never deletes an instance\'s newest snapshot unless stale and committed']
    c.extra['rule'] = 'simulated LSLoop behaviours with crashes/restarts and Store faults replayed on the real loop'


def replay(c, path):
    run(c)
