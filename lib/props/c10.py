"""C10 Syncing reaches quiescence: no echo uploads, no write amplification (protocol part).

Spec: LSProtocol.tla - every Upload/MergeSnap action carries `changed` (whether it alters the store or
the application DBI) and the capture rule of LoadOnce (pendingLocal).  Binding (R): on the real Syncer,
a LoadOnce that the specification flags as changing nothing must not record an LMDB transaction
(LastTxnID unchanged, DBI set unchanged), a SendOnce never records one in native mode and only when it
captured something in shadow mode; native behaviours are replayed with and without the header padding
option.  The loop-level part (uploads only after a local change or at start-up) is the action property
NoEchoUpload of LSLoop.tla, checked by TLC and evaluated on the real loop stepped through its yield points;
with storage_force_snapshot_interval set, the interval passing is an environment step (hook setting the time of the
last own snapshot) and the loop must upload exactly once per passed interval (ForcedWhenDue, conformance of the pcs).
"""
import proto, loopx


def run(c):
    proto.run_suite(c, 'C10', padding_too=True)
    # loop level: the decision to upload (LSLoop action property NoEchoUpload) on the real loop
    loopx.run_suite(c, 'C10', with_window=False)
    # the third legitimate reason for an upload: the forced-snapshot interval (LSLoop IntervalPasses / ForcedWhenDue)
    loopx.run_extra(c, 'C10', 'force')
    c.assumptions += ['dupsort-hack DBIs are excluded from the no-commit clause (property text)', 'creating a missing DBI is a legitimate commit']
    c.extra['rule'] = 'protocol behaviours replayed on real Syncers with LastTxnID observed around every LS step'


def replay(c, path):
    run(c)
