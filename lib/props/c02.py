"""C02 Merging is an order-insensitive join that never moves a key backwards.

Spec: LSData.tla (Merge, Clean, Beats) + MergeLaws.tla (per-key register, function laws).
Binding: (T) every row of the TLC-evaluated Merge/Clean tables is executed on the real
NativeIterator.Merge/Clean under several byte-level concretisations; (R) all pairs and triples
of versions are merged in every order through strategy.Update on a real LMDB and compared with
the winner according to the specification's Beats table.
"""
import os, json
import vlib


def run(c):
    thorough = c.tier == 'thorough'
    cfg = 'MergeLaws.cfg' if not thorough else 'MergeLaws_thorough.cfg'
    r = vlib.tlc_must_pass('MergeLaws', cfg, workers=16 if thorough else 8, timeout=3000 if thorough else 900, keep=True)
    c.add_tlc(cfg, r)
    # the merge on real DBIs of several hundred entries (byte keys and integer keys whose numeric order differs from
    # their byte order), incl. stale snapshots merged again: nothing moves backwards
    vlib.absorb(c, vlib.run_harness(['bulk', 'C02'], timeout=600))
    c.assumptions += [
        'application values are abstracted to 3 (thorough: 4) ordered classes concretised as byte strings (empty, 1 byte, NUL bytes, 3 kB with common prefix)',
        'timestamps are abstracted to 0..3 (thorough 0..4) concretised order-preservingly up to 2^64-1',
        'order-insensitivity is claimed for cutoff = 0; with a stale-marker cut-off the drop rule is order sensitive by design (DESIGN.md section 7)',
    ]
    res = vlib.run_harness(['c02', r.dir, c.tier], timeout=3000)
    vlib.cleanup(r)
    c.evaluations += res['evaluations']
    c.distinct += res['distinct']
    c.traces += res['counters'].get('pair_cases', 0) + res['counters'].get('triple_cases', 0)
    c.extra['harness_counters'] = res['counters']
    c.extra['exhaustive'] = True
    c.extra['rule'] = ('every (stored, incoming, context) row of the TLC-evaluated Merge table x 3 concretisations; '
                       'every pair and triple of incoming versions x every stored version x every order on a real LMDB; '
                       'distinct = table rows + order cases')
    for s in res['samples']:
        c.sample(s)
    for m in res['mismatches']:
        c.violation(m['what'], m['case'], m.get('sig') or {})


def replay(c, path):
    run(c)
