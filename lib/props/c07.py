"""C07 Snapshot encoding is lossless and wire-compatible with the published schema.

Spec: Wire.tla - the schema as a field grammar, the content a conforming decoder must extract from any
re-encoding (field order keeping repeated fields in order, unknown fields of every wire type at every nesting
level, repeated scalars, split embedded messages); TLC checks re-encoding invariance on the model and exports
every variant with its content.  Binding (T): each variant is written out as real protobuf bytes (length
classes 0, 1, 127, 128, 16383, 16384, 2^21+) and decoded by the hand-written codec and by the generated
reference codec of the published schema - both must yield the specified content; the content is then written by
the hand-written encoder (several pre-allocation sizes, buffer growth boundaries) and read by the reference
codec, and LoadData(DumpData(x)) = x.
"""
import vlib


def run(c):
    vlib.table_check(c, 'Wire', 'Wire.cfg', 'c07', workers=1, tlc_timeout=600)
    c.assumptions += ['keys have 1..511 bytes; uint32 fields carry at most 32 bits (DESIGN.md s.7)', 'group wire types are not part of proto3 re-encodings (treated as hostile input under C08)',
                      'bytes inside a length class are generated from the token name']
    c.extra['rule'] = 'every single-site re-encoding of 3 base messages x real bytes; distinct = distinct contents re-encoded by the custom encoder'


def replay(c, path):
    run(c)
