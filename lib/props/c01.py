"""C01 Replicas converge to the per-key last-writer-wins winner.

Spec: LSProtocol.tla (invariant Converged under Quiescent, NoInvention, LSNeverBackwards), native and
shadow mode, 2 instances exhaustively and 3 instances / 2 keys by simulation.  Binding (R): TLC
behaviours are replayed through real Syncer objects (SendOnce / LoadOnce on real LMDBs and a memory
bucket); after every step the projected real state must equal the specification state; a drain phase
then checks identity of all instances and equality with an independent LWW reference.  Binding (V): free-running
fleets of three real Sync loops are recorded (every LMDB write transaction with its id, content reads, decoded
blobs) and each instance's log is validated by TLC against FleetTrace.tla (the data-plane operators).
"""
import vlib
import proto, fleet


def run(c):
    proto.run_suite(c, 'C01')
    # binding (V): free-running real fleets (three Sync loops with receivers, cleaners, random writers); every
    # instance's transaction log must be a behaviour of FleetTrace.tla and the fleet must converge
    fleet.validate(c, 'C01', c.tier)
    # identical application DBIs for every kind of DBI (plain, integer keys, duplicate keys with the dupsort hack),
    # on a receiver that has to create the DBI
    vlib.absorb(c, vlib.run_harness(['converge-kinds'], timeout=300))
    # convergence presupposes that every committed write gets uploaded: behaviours of the sync loop (LSLoop, checked
    # exhaustively under C03/C09) replayed on the real loop, with the publish monitor of C09 counted for C01
    import loopx
    loopx.run_suite(c, 'C01', extra_props=('C09',), with_window=False, exhaustive=False)
    # the same steps on DBIs of several hundred entries with values of very different lengths (pages split and
    # records move while LS iterates and writes): content against the per-key last-writer-wins reference
    vlib.absorb(c, vlib.run_harness(['bulk', 'C01'], timeout=600))
    c.assumptions += ['tomb sweeper disabled (property text)', 'shadow mode: one shared monotone clock; real stamps are compared up to order-isomorphism',
                      'native mode: per instance and key the application uses strictly increasing timestamps (DESIGN.md s.7)',
                      'shadow configurations model shadowToMain as the code is (empty application values are dropped, known finding F3 of C11)']
    c.extra['rule'] = 'TLC simulation behaviours of LSProtocol (deduplicated by action sequence) replayed step by step; distinct = behaviours with more than 2 steps'


def replay(c, path):
    run(c)
