"""C20 The dupsort hack maps duplicate-key data reversibly or refuses it.

Spec: DupSort.tla with the real constants (511, 255, four zero bytes): EncodeOne/DecodeOne/Encode over pools of
keys (incl. trailing zero bytes next to the separator, 255/256 bytes, empty) and values (empty, zero bytes,
250..600 bytes, long shared prefixes); TLC checks round trip, legal length, refusal conditions and that every
accepted two-pair content is mapped to strictly increasing, decodable keys.  Binding (T): every row on the real
helpers (verif wrappers); (R) a sample of the rows through a full mirror cycle on a real MDB_DUPSORT DBI:
SendOnce, fresh shadow receiver, re-merge of the own snapshot, a remote deletion, a native receiver refusing.
"""
import vlib


def run(c):
    res = vlib.table_check(c, 'DupSort', 'DupSort.cfg', 'c20', workers=1, tlc_timeout=1500, harness_timeout=3000, jvm=['-Xss512m'])
    # the same steps on DBIs of several hundred entries with values of very different lengths (pages split and
    # records move while LS iterates and writes): content against the per-key last-writer-wins reference
    vlib.absorb(c, vlib.run_harness(['bulk', 'C20'], timeout=600))
    # settings under which the property cannot hold are refused by Config.Check (what the daemon runs first)
    _g = vlib.run_harness(['config-gate'], timeout=120)
    _g['mismatches'] = [m for m in _g['mismatches'] if (m.get('sig') or {}).get('prop') in ('C20', 'conformance')]
    vlib.absorb(c, _g)
    c.assumptions += ['pools of 9 key shapes x 14 value shapes, all ordered pairs of pairs; other byte values are not enumerated',
                      'empty values of duplicates are subject to finding F3 (C11) and are part of the pools only at the helper level']
    c.extra['rule'] = 'all single pairs and all ordered two-pair contents of the pools on the real helpers; every 37th (thorough: 5th) through a real mirror cycle'


def replay(c, path):
    run(c)
