"""C19 Update strategies apply exactly the iterator's decisions, in the DBI's key order.

Spec: Strategy.tla - the loops of Update / IterUpdate (iterBoth) / EmptyPut as state machines over an
abstract ordered key space, checked by TLC against a map-based reference; every case (stored content,
input sequence, per-key decisions, strategy) is exported and executed on a real LMDB with a scripted
iterator under 7 key concretisations (byte keys with NUL/0xff/prefixes/511 bytes; 4- and 8-byte
MDB_INTEGERKEY incl. 0 and values whose little-endian byte order differs from numeric order).
"""
import vlib


def run(c):
    thorough = c.tier == 'thorough'
    cfg = 'Strategy_thorough.cfg' if thorough else 'Strategy.cfg'
    res = vlib.table_check(c, 'Strategy', cfg, 'c19', workers=16 if thorough else 8,
                           tlc_timeout=3000 if thorough else 900)
    # stored keys that hold an EMPTY value (to an iterator: nothing stored; a merge result that is empty removes them)
    res2 = vlib.table_check(c, 'Strategy', 'Strategy_empty.cfg', 'c19', workers=8, tlc_timeout=900)
    c.traces += res2['counters'].get('rows', 0)
    c.extra['exhaustive'] = True
    c.extra['rule'] = ('every (stored content over 4 keys, input sequence, decision per key, strategy) case of the '
                       'specification x key concretisations on a real LMDB; distinct = table rows')
    c.traces += res['counters'].get('rows', 0)
    # the same steps on DBIs of several hundred entries with values of very different lengths (pages split and
    # records move while LS iterates and writes): content against the per-key last-writer-wins reference
    vlib.absorb(c, vlib.run_harness(['bulk', 'C19'], timeout=600))
    c.assumptions += ['keys abstracted to 4 ordered keys; LMDB cursor semantics after Del/Put assumed as modelled (next stored key greater than the last returned)',
                      'iterator decisions are keep / replace / delete per key; replace encodes whether a stored value was handed to the iterator']


def replay(c, path):
    run(c)
