"""C12 The snapshot cleaner never deletes what is still needed.

Spec: Cleaner.tla - RunOnce transcribed from syncer/cleaner/cleaner.go with listings evolving in timestamp
order per instance, failing List/Delete calls, merge and commit notifications.  TLC checks KeepsYoung,
KeepsNewest, FailSafe, Bounded, NeverEmptiesLive.  Binding (R): behaviours are replayed on the real
cleaner.Worker (controlled clock through RunOnce(ctx, now)) behind a fault-injecting memory bucket that also
holds files the cleaner must never touch (other databases incl. one whose name has ours as prefix,
unparsable names, other kinds); the set of blobs after every step must equal the specification's.
The receive-only clause is checked on a real receive-only Syncer (no Store, no Delete ever).
"""
import json, os
import vlib, tlaval


def conv(st):
    a = dict(st['act'])
    for k in ('failing', 'deleted'):
        if k in a:
            a[k] = [list(x) for x in a[k]]
    return {'act': a, 'files': [list(f) for f in st['files']], 'now': st['now']}


def run_cfg(c, cfg, mustkeep, removeold, n, depth, exhaustive=True, only_class=None):
    if exhaustive:
        r = vlib.tlc_must_pass('Cleaner', cfg, workers=16 if c.tier == 'thorough' else 8, timeout=3000)
        c.add_tlc(cfg, r)
    rs = vlib.tlc('Cleaner', cfg, workers=4, timeout=600, simulate={'num': max(1, n // 4), 'depth': depth, 'file': True, 'seed': vlib.seed()})
    behs, seen = [], set()
    for b in vlib.sim_behaviours(rs):
        bb = [conv(s) for _, s in b]
        k = json.dumps([s['act'] for s in bb], sort_keys=True)
        if k not in seen and any(s['act']['name'] == 'run' for s in bb):
            seen.add(k)
            behs.append(bb)
    c.transitions += rs.generated
    vlib.cleanup(rs)
    d = vlib.scratch('cl-')
    p = os.path.join(d, 'in.json')
    json.dump({'mustKeep': mustkeep, 'removeOld': removeold, 'behaviours': behs}, open(p, 'w'))
    res = vlib.run_harness(['cleaner', p])
    if only_class:
        res['mismatches'] = [m for m in res['mismatches'] if (m.get('sig') or {}).get('class') == only_class]
        for m in res['mismatches']:
            m['sig']['prop'] = c.pid
    vlib.absorb(c, res)


def run(c):
    thorough = c.tier == 'thorough'
    run_cfg(c, 'Cleaner.cfg', 1, 2, 20000 if thorough else 3000, 16)
    run_cfg(c, 'Cleaner_zero.cfg', 0, 1, 20000 if thorough else 3000, 16)
    if thorough:
        run_cfg(c, 'Cleaner_big.cfg', 2, 3, 20000, 20)
    res = vlib.run_harness(['receiveonly'])
    vlib.absorb(c, res)
    # the cleaner as the sync loop runs it (Worker.Run): failing listings - also request timeouts - do not end it
    vlib.absorb(c, vlib.run_harness(['cleaner-run'], timeout=300))
    # SendOnce / LoadOnce side: the cleaner is told "committed" only after an own snapshot was stored (LSLoop)
    import loopx
    loopx.run_suite(c, 'C05', with_window=False)
    c.assumptions += ['snapshots of one instance appear in timestamp order (property text)', 'abstract time unit = 1 minute; interval comparisons land exactly on the boundaries']
    c.extra['rule'] = 'simulated Cleaner behaviours containing at least one cleaning run, replayed on the real cleaner.Worker'


def replay(c, path):
    run(c)
