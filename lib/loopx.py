"""Loop-level replay: TLC behaviours of LSLoop.tla -> the real syncLoop stepped through yield points."""
import json, os
import vlib, tlaval
from proto import fn, dedupe


def img_of(x):
    if x == [] or x is None:
        return {}
    return fn(x)


def convert_state(lbl, st):
    act = dict(st['act'])
    if 'img' in act:
        act['img'] = img_of(act['img'])
    b = st['bucket']
    return {'act': act, 'main': fn(st['main']), 'store': fn(st['store']), 'lastTxn': st['lastTxn'],
            'clock': st['clock'], 'pc': st['pc'], 'lastSynced': st['lastSynced'], 'waitingOwn': st['waitingOwn'],
            'waitingOther': st.get('waitingOther', False), 'tListing': st.get('tListing', False),
            'tStore': st.get('tStore', False), 'tPass': st.get('tPass', False),
            'uncaptured': st['uncaptured'], 'nbucket': len(b), 'committedN': st['committedN'],
            'newestImg': img_of(b[-1]['img']) if b else {}, 'newestTxn': b[-1]['txn'] if b else 0}


def behaviours(r):
    out = []
    for beh in vlib.sim_behaviours(r):
        out.append([convert_state(l, s) for l, s in beh])
    return out


def from_error_trace(r):
    return [convert_state(l, s) for l, s in tlaval.parse_error_trace(r.out)]


def replay(c, behs, native, nkeys=1, retry=2, timeout=3000, only_once=False, force=False, recv_only=False):
    d = vlib.scratch('loop-')
    p = os.path.join(d, 'in.json')
    json.dump({'native': native, 'nkeys': nkeys, 'retryCount': retry, 'onlyOnce': only_once, 'force': force, 'receiveOnly': recv_only,
               'behaviours': behs}, open(p, 'w'))
    return vlib.run_harness(['loop', p], timeout=timeout)


def simulate(c, cfg, num, depth, workers=4, timeout=600):
    per = max(1, num // workers)
    r = vlib.tlc('LSLoop', cfg, workers=workers, timeout=timeout,
                 simulate={'num': per, 'depth': depth, 'file': True, 'seed': vlib.seed()})
    if getattr(r, 'timeout', False) or (r.violation is None and r.rc != 0):
        raise vlib.Inconclusive('TLC simulation failed on %s: %s' % (cfg, r.out[-400:]))
    behs = behaviours(r)
    seen, out = set(), []
    for b in behs:
        k = json.dumps([s['act'] for s in b], sort_keys=True)
        if k not in seen:
            seen.add(k)
            out.append(b)
    c.tlc_runs.append({'config': cfg, 'mode': 'simulate', 'behaviours': len(out), 'depth': depth,
                       'states_generated': r.generated, 'wall_s': round(r.wall, 1)})
    c.transitions += r.generated
    vlib.cleanup(r)
    return out


def absorb(c, res, prop, extra_props=()):
    import proto
    proto.absorb_filtered(c, res, prop, extra_props)


def run_suite(c, prop, extra_props=(), with_window=True, window_inv=None, exhaustive=True, full_thorough=False):
    """Exhaustive TLC on the quick/thorough loop configurations (window excluded), simulation behaviours
    replayed through the real loop, and - when the named deviation AppCommitInEmptyTxnWindow is enabled -
    replay of TLC's counterexample to confirm the known finding on the real code."""
    thorough = c.tier == 'thorough'
    for tag, native in (('native', True), ('shadow', False)):
        # the full configurations (1e8 states) are checked exhaustively once, under C03; the other properties of the
        # loop suite use the smaller configuration in both tiers (every run checks every invariant anyway)
        cfg = 'LSLoop_%s.cfg' % tag if (thorough and full_thorough) else 'LSLoop_%s_q.cfg' % tag
        if exhaustive:
            r = vlib.tlc_must_pass('LSLoop', cfg, workers=16 if thorough else 8, timeout=10800 if thorough else 3000)
            c.add_tlc(cfg, r)
        behs = simulate(c, 'LSLoop_%s.cfg' % tag, 6000 if thorough else 600, 45)
        res = replay(c, behs, native)
        absorb(c, res, prop, extra_props)
    if not with_window:
        return
    # the window: behaviours including it must still conform (the model describes the code as it is);
    # the monitors' hits there are the known finding
    for tag, native, cfgs in (('native', True, ['LSLoop_native_window.cfg']),
                              ('shadow', False, ['LSLoop_shadow_window.cfg', 'LSLoop_shadow_window9.cfg'])):
        for cfg in cfgs:
            r = vlib.tlc('LSLoop', cfg, workers=4, timeout=900, keep=True)
            if r.violation in ('NoLocalLoss', 'PublishedWhenIdle'):
                beh = from_error_trace(r)
                res = replay(c, [beh], native)
                absorb(c, res, prop, extra_props)
                hit = [m for m in res['mismatches'] if (m.get('sig') or {}).get('window')]
                c.extra.setdefault('window_counterexamples', []).append(
                    {'config': cfg, 'violated': r.violation, 'steps': len(beh), 'reproduced_on_code': bool(hit)})
            elif not r.ok:
                vlib.cleanup(r)
                raise vlib.Inconclusive('unexpected TLC result on %s: %s' % (cfg, r.violation))
            vlib.cleanup(r)
        behs = simulate(c, cfgs[0], 2000 if thorough else 300, 45)
        behs = [b for b in behs if any(s['act'].get('window') for s in b)][:400]
        if behs:
            res = replay(c, behs, native)
            absorb(c, res, prop, extra_props)


def run_extra(c, prop, kind, extra_props=(), exhaustive=True):
    """Start-up with another instance's snapshot in the bucket and the start tracker ('ready'), only_once ('once'),
    or the forced-snapshot interval ('force'):
    exhaustive TLC (smaller constants in the quick tier), simulated behaviours replayed through the real loop."""
    thorough = c.tier == 'thorough'
    for tag, native in (('native', True), ('shadow', False)):
        cfg = 'LSLoop_%s_%s%s.cfg' % (tag, kind, '' if thorough else '_q')
        if exhaustive:
            r = vlib.tlc_must_pass('LSLoop', cfg, workers=16 if thorough else 8, timeout=10800 if thorough else 3000)
            c.add_tlc(cfg, r)
        behs = simulate(c, 'LSLoop_%s_%s.cfg' % (tag, kind), 3000 if thorough else 400, 45)
        if kind == 'once':
            behs = [b for b in behs if any(s['act'].get('to') == 'exit' for s in b) or b[0]['act'].get('other')]
        elif kind == 'force':
            behs = [b for b in behs if any(s['act']['name'] == 'interval' for s in b)]
        elif kind == 'recvonly':
            behs = [b for b in behs if any(s['act']['name'] == 'app' for s in b)]
        else:
            behs = [b for b in behs if b[0]['act'].get('other')]
        res = replay(c, behs, native, only_once=(kind == 'once'), force=(kind == 'force'), recv_only=(kind == 'recvonly'))
        absorb(c, res, prop, extra_props)
