#!/usr/bin/env python3
"""Regenerates /verif/MANIFEST.json from the table below (one place to edit)."""
import json, os, subprocess
V = os.path.dirname(os.path.dirname(os.path.abspath(__file__)))
props = [json.loads(l) for l in open(os.path.join(V, 'properties.jsonl'))]

# property -> (technique, level text, level note, design ref)
CLAIMS = {
 'C01': ('TLA+ spec LSProtocol (TLC exhaustive 2 instances native+shadow, simulation 3 instances/2 keys); behaviours replayed on real Syncers (SendOnce/LoadOnce on LMDB + memory bucket) with state comparison after every step and a drain-to-convergence check; TLC trace validation (FleetTrace) of free-running real fleets; LSLoop behaviours replayed on the real loop with the publish monitor',
         'TLC checks Converged (under Quiescent), NoInvention and LSNeverBackwards on LSProtocol; every simulated behaviour is stepped through real Syncer objects and the projected LMDB content of every instance must equal the specification state after every step; a drain phase then checks identity of all instances and equality with an independent LWW reference.',
         'Bounded: 2 instances/1 key exhaustively, 3 instances/2 keys by simulation; values and timestamps abstracted to small ordered classes, concretised three ways (bytes within a class sampled); shadow-mode stamps compared up to order-isomorphism; sweeper disabled.',
         'DESIGN.md section 5 C01'),
 'C02': ('TLA+ spec LSData/MergeLaws checked exhaustively by TLC; TLC-evaluated function tables and all pair/triple orders replayed on the real NativeIterator and strategy.Update on LMDB; the remote-merge rows also through the real LoadOnce',
         'TLC checks the per-key register invariant (stored = LWW winner of everything merged), the never-backwards action property and the algebraic laws over the whole finite domain; every row of the TLC-evaluated Merge/Clean tables is then executed on the real code under three byte-level concretisations, and every pair and triple of versions is merged in every order on a real LMDB and compared with the winner given by the specification order.',
         'Abstract domains: 3-4 ordered value classes, timestamps 0..3(4), formats 1..3, cut-offs {0,2,4}; bytes within a class are sampled. Order laws are claimed for cutoff 0 (stale-marker drop is order sensitive by design, DESIGN.md section 7).',
         'DESIGN.md section 5 C02'),
 'C03': ('TLA+ spec LSLoop (sync loop between yield points with LMDB transaction ids); TLC exhaustive + simulation; behaviours replayed by stepping the real syncLoop goroutine through verif yield hooks with application commits placed exactly at the prescribed points; option receive-only modelled and replayed',
         'TLC checks NoLocalLoss and LSNeverBackwards for every placement of application commits relative to the steps of syncLoop/LoadOnce/SendOnce; the real loop is stepped from yield point to yield point, LMDB content, LastTxnID and the loop\'s transaction-id variables are compared with the specification after every step and NoLocalLoss is evaluated on the real application DBI. The empty-transaction window is a named deviation of the model; its TLC counterexample is replayed on the real code and reported as a known finding.',
         'One instance + environment, one key, <=2 application commits, <=2 remote snapshots, <=1 crash per behaviour (quick); LMDB transaction-id facts assumed as measured on the real library; yield points are outside LMDB transactions.',
         'DESIGN.md section 5 C03'),
 'C04': ('TLA+ specs LSProtocol (with load cut-off) and Retention; TLC exhaustive/simulation; behaviours replayed on real Syncers incl. sweeper configuration; Retention rows and seeded configurations on the real config.Sweeper',
         'TLC checks LSNeverBackwards, MergeDominates and NoBounce (with and without a stale-marker cut-off) and the arithmetic RDMC <= RD; protocol behaviours with deletions are replayed on real Syncers where after every merge the real store must dominate every version of the merged snapshot, and every snapshot must carry every marker; the retention table and 20 000 seeded sweeper configurations are evaluated on the real config methods.',
         'Bounded as C01; real durations compared with the integer model within 1 s / 1e-6 because RetentionDays is a float32; retention_days >= 0.',
         'DESIGN.md section 5 C04'),
 'C05': ('TLA+ spec LSLoop with crash/restart (LMDB kept or emptied), Store faults and own-snapshot delivery; behaviours replayed on the real stepped loop with a fault-injecting bucket; every stored blob decoded; start-up with another instance\'s snapshot in the bucket and the start tracker flags compared after every step',
         'TLC checks NoUploadBeforeOwnMerged and BucketMonotone over crashes at every yield point, restarts with kept or emptied LMDB and Store failures within and beyond the retry budget; the same behaviours are replayed on the real loop (goroutine unwound at the yield point = crash), each stored blob is decoded and compared with the previous newest one and the own-snapshot guard is evaluated on the real run.',
         'One instance + environment at loop level; the interaction with cleaners of other instances is decided by the Cleaner model of C12 (separate check); application writes monotone per key.',
         'DESIGN.md section 5 C05'),
 'C06': ('TLA+ spec LSDump (dump pinned to one transaction vs. application commits, write-lock holding, snapshot time) + LSProtocol image; TLC exhaustive; every interleaving replayed on the real SendOnce through hooks.BeforeRead/FilterReadDBI; decoded blobs compared with the recorded content of the pinned transaction',
         'TLC checks SnapshotIsImage, CrossDBIConsistent and TimeNotBeforeContent for every placement of application commits (also between two entries and with the application holding the write lock when SendOnce is called); each interleaving is forced on the real SendOnce with the harness acting as the application, and the decoded blob must equal the raw content recorded for exactly the pinned transaction (two DBIs with different flags, 511-byte and integer keys, empty and 128 kB values, extension blocks, markers), carry no private DBI, and name database, instance and a strictly increasing time.',
         'Two DBIs, <=3 application commits, <=2 dumps per behaviour; monotone wall clock; values up to 128 kB (megabyte values only in the thorough tier).',
         'DESIGN.md section 5 C06'),
 'C07': ('TLA+ spec Wire (schema as field grammar, content under re-encodings); TLC checks re-encoding invariance and exports variants; each variant as real protobuf bytes through the hand-written codec and the generated reference codec, both directions',
         'TLC checks on the grammar model that the content of a message is invariant under field permutations (repeated fields in order), unknown fields of every wire type at every nesting level, repeated scalars and split embedded messages; every exported variant is written as real bytes with length classes 0..2^21 and must decode to the specified content with the custom and with the reference codec; every distinct content is re-encoded by the custom encoder (several pre-allocations, growth-boundary sweep) and read back by the reference codec and through LoadData(DumpData(x)).',
         '3 base messages, single-site re-encodings; keys 1..511 bytes and DBI names <= 511 bytes (LMDB content); bytes inside a class generated from the token.',
         'DESIGN.md section 5 C07'),
 'C08': ('TLA+ specs Wire (hostile encodings must be rejected) and Receiver (corrupt blobs ignored, others still delivered); hostile rows + exhaustive single-position byte mutations fed to LoadData under watchdog and allocation ceiling; real Receiver scenarios with corrupt blobs',
         'Every hostile row of the grammar and every single-position mutation (truncation, 6 byte values, 8 adversarial varints up to 2^64-1) of small valid messages plus seeded garbage and corrupt gzip containers is decoded and fully iterated under a 10 s watchdog, panic recovery and an allocation ceiling; real receivers with free-running goroutines must deliver the newest decodable snapshot of every instance with corrupt blobs in random positions (also more corrupt blobs than tokens) and return all tokens.',
         'Time/memory bounds are measured, not proved; mutations are exhaustive only for three small base messages (thorough: twelve).',
         'DESIGN.md section 5 C08'),
 'C09': ('TLA+ spec LSLoop; TLC exhaustive + simulation incl. Store failures; behaviours replayed through the real stepped loop; PublishedWhenIdle evaluated on the decoded newest own blob',
         'TLC checks PublishedWhenIdle for every placement of application commits and every number of failing Store calls up to the retry budget; on the real loop the newest own blob is decoded at every idle point and must cover every application commit the harness made up to the LastTxnID the loop read. The empty-transaction window counterexample is replayed on the real code and reported as a known finding.',
         'Bounds as C03; "idle" = the loop reached its sleep and is not waiting for its own old snapshot (DESIGN.md section 7).',
         'DESIGN.md section 5 C09'),
 'C10': ('TLA+ specs LSProtocol (changed flags, pendingLocal) and LSLoop (NoEchoUpload); behaviours replayed on real Syncers/real loop with LastTxnID observed around every LS step, with and without header padding, with the dupsort_hack option on plain DBIs, and with the forced-snapshot interval as an environment step (ForcedWhenDue)',
         'On the real code a LoadOnce that the specification flags as changing nothing must not record an LMDB transaction, SendOnce records one only when it captured something (shadow), and the real loop decides to upload only after an application commit or at start-up (TLC action property NoEchoUpload, also evaluated by the harness on the real run).',
         'Dupsort-hack DBIs excluded from the no-commit clause; creating a missing DBI is a legitimate commit; forced-interval snapshots not modelled (timer).',
         'DESIGN.md section 5 C10'),
 'C11': ('TLA+ specs LSData (MainToShadow/ShadowToMain) and LSProtocol shadow mode (MirrorFaithful, CaptureFaithful); TLC on the design and on the code-as-is model; behaviours and the TLC counterexample replayed on real Syncers; LSLoop receive-only behaviours replayed on the real loop',
         'TLC shows the design satisfies MirrorFaithful/CaptureFaithful and that the model of the code as it is violates MirrorFaithful for empty values; shadow-mode behaviours are replayed on real Syncers under 3 value and 7 key concretisations (NUL/0xff/511-byte keys, MDB_INTEGERKEY with key 0) comparing the application DBI with the live projection of the real shadow DBI; the counterexample is reproduced on the real code and reported as known finding F3.',
         'Steady state only; stamps up to order-isomorphism; inputs that crash lmdb-go RawRead (empty value behind an even-length key at the end of the last page) are excluded from replays and recorded as finding F10.',
         'DESIGN.md section 5 C11'),
 'C12': ('TLA+ spec Cleaner (RunOnce transcribed; listings in timestamp order, failing List/Delete, merge/commit notifications); TLC exhaustive + simulation; behaviours replayed on the real cleaner.Worker behind a fault-injecting bucket with foreign files',
         'TLC checks KeepsYoung, KeepsNewest, FailSafe, Bounded and NeverEmptiesLive for every evolution of the listing, clock schedule, commit notification and failing call within the bounds; every simulated behaviour with a cleaning run is replayed on the real Worker with RunOnce(ctx, now) and the set of blobs after each step must equal the specification state; foreign files (other databases incl. a name-prefix neighbour, unparsable names, other kinds) must never be touched; a receive-only Syncer is observed to perform no Store and no Delete.',
         '2 instances, <=2-3 snapshots each, clock 1..5(6), MustKeep in {0,1,2}, RemoveOld in {1,2,3}; snapshots of an instance appear in timestamp order (property text).',
         'DESIGN.md section 5 C12'),
 'C13': ('TLA+ spec Sweeper (ordered DBI, resumable LimitCursor, write-lock slices, application writes between slices); TLC exhaustive + simulation; behaviours replayed on the real Sweeper through a single-pass wrapper, slice yield hook and slice-size override; free-running passes with a concurrent writer',
         'TLC checks OnlyExpired and ExactlyExpired for every initial content over 4 keys, slice sizes 1 and 2 and every placement of application puts/marks/hard deletes between slices; the same behaviours are forced on the real sweeper (native and shadow mode, in shadow mode a plain application DBI full of marker-looking bytes must stay untouched) with the DBI compared after every step; production-size passes (slice 1000, runs of identical markers) with a concurrent random writer are checked against the same post-condition.',
         'Markers are classified old/young with a margin (2x / 0.5x the retention, fresh, 5 s in the future); the exact cut-off boundary is covered by the model only.',
         'DESIGN.md section 5 C13'),
 'C14': ('TLA+ spec Header (layout, Parse/Skip outcomes, what LS writes); rows as raw bytes through header.Parse/Skip/Bytes/PutBasic against an independent reader; well-formedness monitor over every value the real iterator writes for the whole Merge table and every stored value in protocol replays',
         'Every shape row (length, version, flags, extension count incl. 8191/8192/65535, truncation) is concretised and parsed by the real code and by an independent reader written from the schema document; every value written by the real NativeIterator for all rows of the TLC-evaluated Merge table (incl. unknown flag bits, padding option) and every raw value found in native/shadow DBIs after every step of protocol replays is checked: version 0, only synced flags, reserved bytes zero, extension count, transaction id of the writing transaction, empty value when deleted.',
         'Payload bytes, timestamps and transaction ids inside a class are seeded samples.',
         'DESIGN.md section 5 C14'),
 'C15': ('TLA+ spec Names (character-level Build/Parse, sanitiser, listing prefix); TLC checks the laws and exports structured names; rows concretised through ParseName/BuildName, the real instanceID(), seeded timestamps in several zones',
         'TLC checks round trip, sanitised-name safety, cross-database prefix and exact re-build over all structured names of <=5 parts; every row is concretised (letters/digits, NUL, invalid UTF-8, multi-byte runes, timestamps 1970..2262) and must parse/re-build exactly as specified; 3000 seeded timestamps in UTC and two fixed zones must round-trip and sort byte-wise in chronological order.',
         'Breadth over real strings and timestamps comes from seeded sampling inside the abstract classes.',
         'DESIGN.md section 5 C15'),
 'C16': ('TLA+ spec Receiver (listing loop, downloaders, token pools, consumer) checked by TLC incl. liveness under fairness; TLC trace validation (ReceiverTrace) of recorded runs of the real Receiver with real goroutines; free-running delivery and run-once scenarios; LSLoop with only_once (Exit, ExitOnlyWhenDone) replayed on the real loop',
         'TLC checks TokensAccounted, IgnoredForGood, DeliversDecodable and the liveness property Delivered; the real Receiver is driven by seeded random external actions behind a gated bucket, its observable state is recorded after every action and every recorded trace must be a behaviour of the specification (silent downloader steps), with the invariants evaluated on it; run-once mode must end only after every instance present at start-up was merged.',
         'Observation after the goroutines settled (9 ms stable); 3 instances, limits 1/2 in validation; fault counts bounded in the liveness model.',
         'DESIGN.md section 5 C16'),
 'C20': ('TLA+ spec DupSort with the real constants; TLC checks round trip/legal length/refusal/order and exports all single pairs and two-pair contents; rows on the real helpers and a sample through a real mirror cycle on an MDB_DUPSORT DBI',
         'Every pair of the pools and every ordered two-pair content is run through the real EncodeOne/DecodeOne/Encode/Decode (verif wrappers) and must be accepted or refused exactly as specified with strictly increasing, decodable keys; sampled contents go through SendOnce, a fresh shadow receiver, re-merge of the own snapshot, a remote deletion and a native receiver (which must refuse).',
         'Pools of 9 key and 14 value shapes built from bytes {0,1,7,255}; empty-value duplicates are subject to the known finding F3.',
         'DESIGN.md section 5 C20'),
 'C17': ('TLA+ spec Topic (mutex, rendezvous/buffered channels, Close at any moment) checked by TLC; every call-start sequence of the complete state graph executed on the real Topic with goroutine-status observation; climit schedules, global-storage orders in fresh processes, cancelled real fleets; Go race detector for the data-race clause (Topic.Handle with failing callbacks and cancelled contexts included)',
         'TLC checks CloseNeverWedges and MutexSane (and shows the plain blocking send wedges); all 306 (thorough: 7120 with 3 subscribers) maximal sequences of call starts are run on the real Topic and the settled set of calls in progress, Next results and received counts must match a settled state the specification allows; token counts of the real climit are compared with the model over seeded multi-goroutine release schedules; every order of SetGlobal/GetGlobal runs in a fresh process; real fleets with all background goroutines are cancelled and must leave nothing parked (a downloader parked in Acquire is a known finding).',
         'Data races are decided by the Go race detector on these drivers, not by TLC; goroutine status is observed after it settled.',
         'DESIGN.md section 5 C17'),
 'C18': ('TLA+ spec LoadAtomic (LoadOnce transaction step by step with failures and a reader; gate table); gate rows as real snapshots through LoadOnce with byte-exact dumps; failure injection (malformed entry, counting-context cancellation, full map) and concurrent reader; Merge-table rows (format versions 1..3) through the real LoadOnce',
         'TLC checks ReadersSeeWhole, AbortRestores, SuccessMerges and tabulates the gates over format 0..4 x compat 0..4 x transform x dupsort flag x mode x DBI exists x private; all 1200 rows run on the real LoadOnce (refused => LMDB byte-identical incl. LastTxnID; merged => content incl. version-1 empty value = deletion; private DBIs ignored; unreadable versions refused whatever the snapshot contains); failures are injected in every DBI at every entry, at every cancellation check and at successive map sizes; three reader goroutines compare a generation key across DBIs during 30 merges.',
         'LMDB MVCC isolation is exercised, not verified; shadow rows run with dupsort_hack enabled.',
         'DESIGN.md section 5 C18'),
 'C19': ('TLA+ spec Strategy (loop state machines of Update/IterUpdate/EmptyPut checked against a map reference by TLC); every case replayed on a real LMDB with a scripted iterator under 7 key concretisations',
         'TLC checks every terminal state of the three loop machines against the reference over all stored contents x inputs x decisions; the exported cases are executed on a real LMDB through the real strategies with byte-ordered and MDB_INTEGERKEY keys, checking content, order, rejection of unsorted input and that the iterator was handed the stored value.',
         '4 abstract keys, inputs up to length 4 (unsorted up to 2, thorough 3); LMDB cursor semantics assumed as modelled.',
         'DESIGN.md section 5 C19'),
}

def sh(*a):
    return subprocess.check_output(a, text=True).strip()

def hook_commits():
    try:
        out = sh('git', '-C', '/repo', 'log', '--format=%h %s')
    except Exception:
        return []
    return [l.split()[0] for l in out.splitlines() if l.split(' ', 1)[1].startswith('verif:')]

m = {
 'version': 1,
 'setup_cmd': 'cd /verif && bin/setup',
 'hooks': {
  'guard': 'verif',
  'enable': 'go build -tags verif (harness module /verif/harness, go.mod generated from /repo/go.mod with replace => /repo)',
  'baseline_off_cmd': 'cd /repo && GOFLAGS=-mod=mod GOPROXY=off go test -json -vet=off -count=1 -timeout 25m ./...',
  'source_commits': hook_commits(),
  'add_only': True,
 },
 'engines': [
  {'name': 'tlc', 'path': '/verif/spec', 'serves_properties': sorted(CLAIMS), 'kind_free_text': 'explicit TLA+ specification checked with TLC (exhaustive + simulation), tables and behaviours exported for conformance'},
  {'name': 'harness', 'path': '/verif/harness', 'serves_properties': sorted(CLAIMS), 'kind_free_text': 'Go conformance harness: replays TLC behaviours/tables into the real code, records traces for TLC trace validation'},
 ],
 'checks': [],
 'notes': 'Driver: bin/check <id> [--tier quick|thorough] [--replay path]; exit 2 = inconclusive. Known findings: known-findings.json. See DESIGN.md.',
 'not_applicable': [],
}
for p in props:
    pid = p['id']
    if pid in CLAIMS:
        tech, text, note, ref = CLAIMS[pid]
        m['checks'].append({
            'property_id': pid,
            'quick_cmd': 'bin/check %s --tier quick' % pid,
            'thorough_cmd': 'bin/check %s --tier thorough' % pid,
            'evidence_file': '/verif/evidence/%s.json' % pid,
            'replay_cmd_template': 'bin/check %s --replay {path}' % pid,
            'engine': 'tlc+harness',
            'level_claimed': {'category': 'model_checking', 'text': text, 'design_ref': ref},
            'level_note': note,
            'technique': tech,
        })
    else:
        m['not_applicable'].append({'property_id': pid, 'reason': 'check not implemented yet (work in progress; planned per DESIGN.md section 5)'})
json.dump(m, open(os.path.join(V, 'MANIFEST.json'), 'w'), indent=1)
print('claimed', len(m['checks']), 'n/a', len(m['not_applicable']))
