#!/usr/bin/env python3
"""Regenerates /verif/MANIFEST.json from the table below (one place to edit)."""
import json, os, subprocess
V = os.path.dirname(os.path.dirname(os.path.abspath(__file__)))
props = [json.loads(l) for l in open(os.path.join(V, 'properties.jsonl'))]

# property -> (technique, level text, level note, design ref)
CLAIMS = {
 'C01': ('TLA+ spec LSProtocol (TLC exhaustive 2 instances native+shadow, simulation 3 instances/2 keys); behaviours replayed on real Syncers (SendOnce/LoadOnce on LMDB + memory bucket) with state comparison after every step and a drain-to-convergence check',
         'TLC checks Converged (under Quiescent), NoInvention and LSNeverBackwards on LSProtocol; every simulated behaviour is stepped through real Syncer objects and the projected LMDB content of every instance must equal the specification state after every step; a drain phase then checks identity of all instances and equality with an independent LWW reference.',
         'Bounded: 2 instances/1 key exhaustively, 3 instances/2 keys by simulation; values and timestamps abstracted to small ordered classes, concretised three ways (bytes within a class sampled); shadow-mode stamps compared up to order-isomorphism; sweeper disabled.',
         'DESIGN.md section 5 C01'),
 'C02': ('TLA+ spec LSData/MergeLaws checked exhaustively by TLC; TLC-evaluated function tables and all pair/triple orders replayed on the real NativeIterator and strategy.Update on LMDB',
         'TLC checks the per-key register invariant (stored = LWW winner of everything merged), the never-backwards action property and the algebraic laws over the whole finite domain; every row of the TLC-evaluated Merge/Clean tables is then executed on the real code under three byte-level concretisations, and every pair and triple of versions is merged in every order on a real LMDB and compared with the winner given by the specification order.',
         'Abstract domains: 3-4 ordered value classes, timestamps 0..3(4), formats 1..3, cut-offs {0,2,4}; bytes within a class are sampled. Order laws are claimed for cutoff 0 (stale-marker drop is order sensitive by design, DESIGN.md section 7).',
         'DESIGN.md section 5 C02'),
 'C03': ('TLA+ spec LSLoop (sync loop between yield points with LMDB transaction ids); TLC exhaustive + simulation; behaviours replayed by stepping the real syncLoop goroutine through verif yield hooks with application commits placed exactly at the prescribed points',
         'TLC checks NoLocalLoss and LSNeverBackwards for every placement of application commits relative to the steps of syncLoop/LoadOnce/SendOnce; the real loop is stepped from yield point to yield point, LMDB content, LastTxnID and the loop\'s transaction-id variables are compared with the specification after every step and NoLocalLoss is evaluated on the real application DBI. The empty-transaction window is a named deviation of the model; its TLC counterexample is replayed on the real code and reported as a known finding.',
         'One instance + environment, one key, <=2 application commits, <=2 remote snapshots, <=1 crash per behaviour (quick); LMDB transaction-id facts assumed as measured on the real library; yield points are outside LMDB transactions.',
         'DESIGN.md section 5 C03'),
 'C04': ('TLA+ specs LSProtocol (with load cut-off) and Retention; TLC exhaustive/simulation; behaviours replayed on real Syncers incl. sweeper configuration; Retention rows and seeded configurations on the real config.Sweeper',
         'TLC checks LSNeverBackwards, MergeDominates and NoBounce (with and without a stale-marker cut-off) and the arithmetic RDMC <= RD; protocol behaviours with deletions are replayed on real Syncers where after every merge the real store must dominate every version of the merged snapshot, and every snapshot must carry every marker; the retention table and 20 000 seeded sweeper configurations are evaluated on the real config methods.',
         'Bounded as C01; real durations compared with the integer model within 1 s / 1e-6 because RetentionDays is a float32; retention_days >= 0.',
         'DESIGN.md section 5 C04'),
 'C05': ('TLA+ spec LSLoop with crash/restart (LMDB kept or emptied), Store faults and own-snapshot delivery; behaviours replayed on the real stepped loop with a fault-injecting bucket; every stored blob decoded',
         'TLC checks NoUploadBeforeOwnMerged and BucketMonotone over crashes at every yield point, restarts with kept or emptied LMDB and Store failures within and beyond the retry budget; the same behaviours are replayed on the real loop (goroutine unwound at the yield point = crash), each stored blob is decoded and compared with the previous newest one and the own-snapshot guard is evaluated on the real run.',
         'One instance + environment at loop level; the interaction with cleaners of other instances is decided by the Cleaner model of C12 (separate check); application writes monotone per key.',
         'DESIGN.md section 5 C05'),
 'C06': ('TLA+ spec LSDump (dump pinned to one transaction vs. application commits, write-lock holding, snapshot time) + LSProtocol image; TLC exhaustive; every interleaving replayed on the real SendOnce through hooks.BeforeRead/FilterReadDBI; decoded blobs compared with the recorded content of the pinned transaction',
         'TLC checks SnapshotIsImage, CrossDBIConsistent and TimeNotBeforeContent for every placement of application commits (also between two entries and with the application holding the write lock when SendOnce is called); each interleaving is forced on the real SendOnce with the harness acting as the application, and the decoded blob must equal the raw content recorded for exactly the pinned transaction (two DBIs with different flags, 511-byte and integer keys, empty and 128 kB values, extension blocks, markers), carry no private DBI, and name database, instance and a strictly increasing time.',
         'Two DBIs, <=3 application commits, <=2 dumps per behaviour; monotone wall clock; values up to 128 kB (megabyte values only in the thorough tier).',
         'DESIGN.md section 5 C06'),
 'C09': ('TLA+ spec LSLoop; TLC exhaustive + simulation incl. Store failures; behaviours replayed through the real stepped loop; PublishedWhenIdle evaluated on the decoded newest own blob',
         'TLC checks PublishedWhenIdle for every placement of application commits and every number of failing Store calls up to the retry budget; on the real loop the newest own blob is decoded at every idle point and must cover every application commit the harness made up to the LastTxnID the loop read. The empty-transaction window counterexample is replayed on the real code and reported as a known finding.',
         'Bounds as C03; "idle" = the loop reached its sleep and is not waiting for its own old snapshot (DESIGN.md section 7).',
         'DESIGN.md section 5 C09'),
 'C10': ('TLA+ specs LSProtocol (changed flags, pendingLocal) and LSLoop (NoEchoUpload); behaviours replayed on real Syncers/real loop with LastTxnID observed around every LS step, with and without header padding',
         'On the real code a LoadOnce that the specification flags as changing nothing must not record an LMDB transaction, SendOnce records one only when it captured something (shadow), and the real loop decides to upload only after an application commit or at start-up (TLC action property NoEchoUpload, also evaluated by the harness on the real run).',
         'Dupsort-hack DBIs excluded from the no-commit clause; creating a missing DBI is a legitimate commit; forced-interval snapshots not modelled (timer).',
         'DESIGN.md section 5 C10'),
 'C11': ('TLA+ specs LSData (MainToShadow/ShadowToMain) and LSProtocol shadow mode (MirrorFaithful, CaptureFaithful); TLC on the design and on the code-as-is model; behaviours and the TLC counterexample replayed on real Syncers',
         'TLC shows the design satisfies MirrorFaithful/CaptureFaithful and that the model of the code as it is violates MirrorFaithful for empty values; shadow-mode behaviours are replayed on real Syncers under 3 value and 7 key concretisations (NUL/0xff/511-byte keys, MDB_INTEGERKEY with key 0) comparing the application DBI with the live projection of the real shadow DBI; the counterexample is reproduced on the real code and reported as known finding F3.',
         'Steady state only; stamps up to order-isomorphism; inputs that crash lmdb-go RawRead (empty value behind an even-length key at the end of the last page) are excluded from replays and recorded as finding F10.',
         'DESIGN.md section 5 C11'),
 'C12': ('TLA+ spec Cleaner (RunOnce transcribed; listings in timestamp order, failing List/Delete, merge/commit notifications); TLC exhaustive + simulation; behaviours replayed on the real cleaner.Worker behind a fault-injecting bucket with foreign files',
         'TLC checks KeepsYoung, KeepsNewest, FailSafe, Bounded and NeverEmptiesLive for every evolution of the listing, clock schedule, commit notification and failing call within the bounds; every simulated behaviour with a cleaning run is replayed on the real Worker with RunOnce(ctx, now) and the set of blobs after each step must equal the specification state; foreign files (other databases incl. a name-prefix neighbour, unparsable names, other kinds) must never be touched; a receive-only Syncer is observed to perform no Store and no Delete.',
         '2 instances, <=2-3 snapshots each, clock 1..5(6), MustKeep in {0,1,2}, RemoveOld in {1,2,3}; snapshots of an instance appear in timestamp order (property text).',
         'DESIGN.md section 5 C12'),
 'C19': ('TLA+ spec Strategy (loop state machines of Update/IterUpdate/EmptyPut checked against a map reference by TLC); every case replayed on a real LMDB with a scripted iterator under 7 key concretisations',
         'TLC checks every terminal state of the three loop machines against the reference over all stored contents x inputs x decisions; the exported cases are executed on a real LMDB through the real strategies with byte-ordered and MDB_INTEGERKEY keys, checking content, order, rejection of unsorted input and that the iterator was handed the stored value.',
         '4 abstract keys, inputs up to length 4 (unsorted up to 2, thorough 3); LMDB cursor semantics assumed as modelled.',
         'DESIGN.md section 5 C19'),
}

def sh(*a):
    return subprocess.check_output(a, text=True).strip()

def hook_commits():
    try:
        out = sh('git', '-C', '/repo', 'log', '--format=%h %s')
    except Exception:
        return []
    return [l.split()[0] for l in out.splitlines() if l.split(' ', 1)[1].startswith('verif:')]

m = {
 'version': 1,
 'setup_cmd': 'cd /verif && bin/setup',
 'hooks': {
  'guard': 'verif',
  'enable': 'go build -tags verif (harness module /verif/harness, go.mod generated from /repo/go.mod with replace => /repo)',
  'baseline_off_cmd': 'cd /repo && GOFLAGS=-mod=mod GOPROXY=off go test -json -vet=off -count=1 -timeout 25m ./...',
  'source_commits': hook_commits(),
  'add_only': True,
 },
 'engines': [
  {'name': 'tlc', 'path': '/verif/spec', 'serves_properties': sorted(CLAIMS), 'kind_free_text': 'explicit TLA+ specification checked with TLC (exhaustive + simulation), tables and behaviours exported for conformance'},
  {'name': 'harness', 'path': '/verif/harness', 'serves_properties': sorted(CLAIMS), 'kind_free_text': 'Go conformance harness: replays TLC behaviours/tables into the real code, records traces for TLC trace validation'},
 ],
 'checks': [],
 'notes': 'Driver: bin/check <id> [--tier quick|thorough] [--replay path]; exit 2 = inconclusive. Known findings: known-findings.json. See DESIGN.md.',
 'not_applicable': [],
}
for p in props:
    pid = p['id']
    if pid in CLAIMS:
        tech, text, note, ref = CLAIMS[pid]
        m['checks'].append({
            'property_id': pid,
            'quick_cmd': 'bin/check %s --tier quick' % pid,
            'thorough_cmd': 'bin/check %s --tier thorough' % pid,
            'evidence_file': '/verif/evidence/%s.json' % pid,
            'replay_cmd_template': 'bin/check %s --replay {path}' % pid,
            'engine': 'tlc+harness',
            'level_claimed': {'category': 'model_checking', 'text': text, 'design_ref': ref},
            'level_note': note,
            'technique': tech,
        })
    else:
        m['not_applicable'].append({'property_id': pid, 'reason': 'check not implemented yet (work in progress; planned per DESIGN.md section 5)'})
json.dump(m, open(os.path.join(V, 'MANIFEST.json'), 'w'), indent=1)
print('claimed', len(m['checks']), 'n/a', len(m['not_applicable']))
