#!/usr/bin/env python3
"""Regenerates /verif/MANIFEST.json from the table below (one place to edit)."""
import json, os, subprocess
V = os.path.dirname(os.path.dirname(os.path.abspath(__file__)))
props = [json.loads(l) for l in open(os.path.join(V, 'properties.jsonl'))]

# property -> (technique, level text, level note, design ref)
CLAIMS = {
 'C02': ('TLA+ spec LSData/MergeLaws checked exhaustively by TLC; TLC-evaluated function tables and all pair/triple orders replayed on the real NativeIterator and strategy.Update on LMDB',
         'TLC checks the per-key register invariant (stored = LWW winner of everything merged), the never-backwards action property and the algebraic laws over the whole finite domain; every row of the TLC-evaluated Merge/Clean tables is then executed on the real code under three byte-level concretisations, and every pair and triple of versions is merged in every order on a real LMDB and compared with the winner given by the specification order.',
         'Abstract domains: 3-4 ordered value classes, timestamps 0..3(4), formats 1..3, cut-offs {0,2,4}; bytes within a class are sampled. Order laws are claimed for cutoff 0 (stale-marker drop is order sensitive by design, DESIGN.md section 7).',
         'DESIGN.md section 5 C02'),
}

def sh(*a):
    return subprocess.check_output(a, text=True).strip()

def hook_commits():
    try:
        out = sh('git', '-C', '/repo', 'log', '--format=%h %s')
    except Exception:
        return []
    return [l.split()[0] for l in out.splitlines() if l.split(' ', 1)[1].startswith('verif:')]

m = {
 'version': 1,
 'setup_cmd': 'cd /verif && bin/setup',
 'hooks': {
  'guard': 'verif',
  'enable': 'go build -tags verif (harness module /verif/harness, go.mod generated from /repo/go.mod with replace => /repo)',
  'baseline_off_cmd': 'cd /repo && GOFLAGS=-mod=mod GOPROXY=off go test -json -vet=off -count=1 -timeout 25m ./...',
  'source_commits': hook_commits(),
  'add_only': True,
 },
 'engines': [
  {'name': 'tlc', 'path': '/verif/spec', 'serves_properties': sorted(CLAIMS), 'kind_free_text': 'explicit TLA+ specification checked with TLC (exhaustive + simulation), tables and behaviours exported for conformance'},
  {'name': 'harness', 'path': '/verif/harness', 'serves_properties': sorted(CLAIMS), 'kind_free_text': 'Go conformance harness: replays TLC behaviours/tables into the real code, records traces for TLC trace validation'},
 ],
 'checks': [],
 'notes': 'Driver: bin/check <id> [--tier quick|thorough] [--replay path]; exit 2 = inconclusive. Known findings: known-findings.json. See DESIGN.md.',
 'not_applicable': [],
}
for p in props:
    pid = p['id']
    if pid in CLAIMS:
        tech, text, note, ref = CLAIMS[pid]
        m['checks'].append({
            'property_id': pid,
            'quick_cmd': 'bin/check %s --tier quick' % pid,
            'thorough_cmd': 'bin/check %s --tier thorough' % pid,
            'evidence_file': '/verif/evidence/%s.json' % pid,
            'replay_cmd_template': 'bin/check %s --replay {path}' % pid,
            'engine': 'tlc+harness',
            'level_claimed': {'category': 'model_checking', 'text': text, 'design_ref': ref},
            'level_note': note,
            'technique': tech,
        })
    else:
        m['not_applicable'].append({'property_id': pid, 'reason': 'check not implemented yet (work in progress; planned per DESIGN.md section 5)'})
json.dump(m, open(os.path.join(V, 'MANIFEST.json'), 'w'), indent=1)
print('claimed', len(m['checks']), 'n/a', len(m['not_applicable']))
