package hx

import (
	"bytes"
	"encoding/binary"
	"fmt"
)

// Ver is an abstract stored version of the specification (LSData.tla): ts = -1 means absent.
type Ver struct {
	TS  int  `json:"ts"`
	Del bool `json:"del"`
	Val int  `json:"val"`
}

func (v Ver) Absent() bool { return v.TS < 0 }
func (v Ver) String() string {
	if v.Absent() {
		return "absent"
	}
	if v.Del {
		return fmt.Sprintf("del@%d(v%d)", v.TS, v.Val)
	}
	return fmt.Sprintf("v%d@%d", v.Val, v.TS)
}

// In is an abstract incoming snapshot entry.
type In struct {
	TS  int  `json:"ts"`
	Del bool `json:"del"`
	Val int  `json:"val"`
	XF  bool `json:"xf"`
}

// Conc is a concretisation of the abstract domains: order preserving maps
// abstract timestamp -> uint64 (0 -> 0) and abstract value -> bytes (0 -> empty).
type Conc struct {
	Name  string
	TS    []uint64
	Val   [][]byte
	XF    uint32 // unknown flag bits to set when xf
	Extra int    // number of 8-byte extension blocks on pre-existing stored values
}

func (c Conc) TSOf(a int) uint64 { return c.TS[a] }
func (c Conc) AbsTS(ts uint64) (int, bool) {
	for i, t := range c.TS {
		if t == ts {
			return i, true
		}
	}
	return 0, false
}
func (c Conc) AbsVal(b []byte) (int, bool) {
	for i, v := range c.Val {
		if bytes.Equal(v, b) {
			return i, true
		}
	}
	return 0, false
}

func big(prefix byte, n int, last byte) []byte {
	b := bytes.Repeat([]byte{prefix}, n)
	return append(b, last)
}

// Concs returns the standard concretisations; abstract timestamps 0..6, values 0..3.
func Concs() []Conc {
	return []Conc{
		{Name: "small", TS: []uint64{0, 1, 2, 3, 4, 5, 6}, Val: [][]byte{{}, []byte("a"), []byte("b"), []byte("c")}, XF: 0x2},
		{Name: "wide", TS: []uint64{0, 1, 1700000000000000000, 1<<63 - 1, 1 << 63, 1<<64 - 2, 1<<64 - 1},
			Val: [][]byte{{}, {0}, {0, 0}, {0xff}}, XF: 0x80, Extra: 1},
		{Name: "long", TS: []uint64{0, 255, 256, 65536, 1 << 32, 1 << 40, 1 << 56},
			Val: [][]byte{{}, big('a', 3000, 'x'), big('a', 3000, 'y'), big('b', 1, 0)}, XF: 0xfffffffe, Extra: 3},
	}
}

// ---- independent reader/writer of the native value header (docs/schema-native.md)

type RawHeader struct {
	TS       uint64
	TxnID    uint64
	Version  byte
	Flags    byte
	Reserved [4]byte
	NumExtra int
	Value    []byte
}

// ParseRaw parses a stored value according to the documented layout:
// 8 bytes big-endian timestamp, 8 bytes big-endian txnid, version, flags,
// 4 reserved bytes, 2 bytes big-endian extension count, extensions, value.
func ParseRaw(b []byte) (RawHeader, error) {
	var h RawHeader
	if len(b) < 24 {
		return h, fmt.Errorf("value shorter than a header (%d bytes)", len(b))
	}
	h.TS = binary.BigEndian.Uint64(b[0:8])
	h.TxnID = binary.BigEndian.Uint64(b[8:16])
	h.Version = b[16]
	h.Flags = b[17]
	copy(h.Reserved[:], b[18:22])
	h.NumExtra = int(binary.BigEndian.Uint16(b[22:24]))
	if h.Version != 0 {
		return h, fmt.Errorf("header version %d", h.Version)
	}
	if len(b) < 24+8*h.NumExtra {
		return h, fmt.Errorf("extension count %d exceeds the value", h.NumExtra)
	}
	h.Value = b[24+8*h.NumExtra:]
	return h, nil
}

// MakeRaw builds a stored value; extra = number of extension blocks (filled with 0xEE).
func MakeRaw(ts, txnid uint64, flags byte, extra int, val []byte) []byte {
	b := make([]byte, 24+8*extra, 24+8*extra+len(val))
	binary.BigEndian.PutUint64(b[0:8], ts)
	binary.BigEndian.PutUint64(b[8:16], txnid)
	b[17] = flags
	binary.BigEndian.PutUint16(b[22:24], uint16(extra))
	for i := 24; i < len(b); i++ {
		b[i] = 0xEE
	}
	return append(b, val...)
}

// WellFormedLSWrite checks what C14 demands of a value written by LS in transaction txnid.
func WellFormedLSWrite(b []byte, txnid uint64, padding bool) error {
	h, err := ParseRaw(b)
	if err != nil {
		return err
	}
	if h.TxnID != txnid {
		return fmt.Errorf("header txnid %d, writing transaction %d", h.TxnID, txnid)
	}
	if h.Flags&^1 != 0 {
		return fmt.Errorf("flags %#x outside the synced set", h.Flags)
	}
	if h.Reserved != [4]byte{} {
		return fmt.Errorf("reserved bytes not zero")
	}
	want := 0
	if padding {
		want = 1
	}
	if h.NumExtra != want {
		return fmt.Errorf("extension count %d", h.NumExtra)
	}
	if h.Flags&1 != 0 && len(h.Value) != 0 {
		return fmt.Errorf("deleted entry carries a value")
	}
	return nil
}

// StoredBytes builds the LMDB value of an abstract stored version.
func (c Conc) StoredBytes(v Ver, txnid uint64) []byte {
	if v.Absent() {
		return nil
	}
	var fl byte
	if v.Del {
		fl = 1
	}
	return MakeRaw(c.TS[v.TS], txnid, fl, c.Extra, c.Val[v.Val])
}

// AbsStored maps an LMDB value back to an abstract version.
func (c Conc) AbsStored(b []byte) (Ver, error) {
	if len(b) == 0 {
		return Ver{TS: -1}, nil
	}
	h, err := ParseRaw(b)
	if err != nil {
		return Ver{}, err
	}
	ts, ok := c.AbsTS(h.TS)
	if !ok {
		return Ver{}, fmt.Errorf("timestamp %d is not in the concretisation", h.TS)
	}
	val, ok := c.AbsVal(h.Value)
	if !ok {
		return Ver{}, fmt.Errorf("value of %d bytes is not in the concretisation", len(h.Value))
	}
	return Ver{TS: ts, Del: h.Flags&1 != 0, Val: val}, nil
}
