package hx

import (
	"bytes"
	"context"
	"fmt"
	"math/rand"
	"strings"
	"sync"
	"time"

	"github.com/PowerDNS/lightningstream/config"
	"github.com/PowerDNS/lightningstream/lmdbenv/limitscanner"
	"github.com/PowerDNS/lightningstream/syncer/sweeper"
	"github.com/PowerDNS/lmdb-go/lmdb"
	"github.com/sirupsen/logrus"
)

func init() {
	Commands["sweepmalformed"] = cmdSweepMalformed
	Commands["sweep"] = cmdSweep
	sweeper.VerifSliceYield = func(dbi string) {
		sweepMu.Lock()
		g := sweepGates[dbi]
		sweepMu.Unlock()
		if g != nil {
			g.parked <- struct{}{}
			<-g.resume
		}
	}
}

type sweepGate struct {
	parked chan struct{}
	resume chan struct{}
}

var (
	sweepMu    sync.Mutex
	sweepGates = map[string]*sweepGate{}
)

type swEntry struct {
	Kind string `json:"kind"`
	V    int    `json:"v"`
}
type swAct struct {
	Name    string `json:"name"`
	K       int    `json:"k"`
	Kind    string `json:"kind"`
	More    bool   `json:"more"`
	Scanned []int  `json:"scanned"`
	Deleted []int  `json:"deleted"`
}
type swStep struct {
	Act swAct     `json:"act"`
	DBI []swEntry `json:"dbi"`
}
type swInput struct {
	CheckEvery int        `json:"checkEvery"`
	Behaviours [][]swStep `json:"behaviours"`
}

func cmdSweep(args []string) error {
	var in swInput
	if err := ReadJSON(args[0], &in); err != nil {
		return err
	}
	limitscanner.VerifCheckEvery = in.CheckEvery
	R := NewResult()
	var firstErr error
	var mu sync.Mutex
	ParallelFor(len(in.Behaviours), 8, func(bi int) {
		if err := replaySweep(R, in, in.Behaviours[bi], bi); err != nil {
			mu.Lock()
			if firstErr == nil {
				firstErr = fmt.Errorf("behaviour %d: %w", bi, err)
			}
			mu.Unlock()
		}
		R.Add(0, 0, 1)
	})
	if firstErr != nil {
		return firstErr
	}
	return Emit(R)
}

// a fractional retention_days (2.5 days = 60 h); the oldest marker that must survive is 0.995 of it (59.7 h)
const swRetentionDays = 2.5
const swRetention = 60 * time.Hour

func swValue(e swEntry, now time.Time) []byte {
	switch e.Kind {
	case "live":
		return MakeRaw(uint64(now.Add(-30*24*time.Hour).UnixNano()), uint64(e.V), 0, e.V%2, []byte(fmt.Sprintf("value-%d", e.V)))
	case "old":
		fl := byte(1)
		if e.V%2 == 1 {
			fl = 0x81 // a marker carrying a flag bit this version does not know (to be ignored when reading)
		}
		return MakeRaw(uint64(now.Add(-2*swRetention).UnixNano()), uint64(e.V), fl, 0, nil)
	case "young":
		switch e.V % 3 {
		case 0: // ahead of the local clock (another instance's clock, or written while the pass is running)
			return MakeRaw(uint64(now.Add(5*time.Second).UnixNano()), uint64(e.V), 1, 0, nil)
		case 1:
			return MakeRaw(uint64(time.Now().UnixNano()), uint64(e.V), 1, 0, nil) // fresh
		}
		return MakeRaw(uint64(now.Add(-swRetention*995/1000).UnixNano()), uint64(e.V), 1, 0, nil) // inside the 1 % load margin
	}
	return nil
}

func replaySweep(R *Result, in swInput, beh []swStep, bi int) error {
	native := bi%2 == 0
	env, dir, err := TempEnv()
	if err != nil {
		return err
	}
	defer CloseEnv(env, dir)
	now := time.Now()
	// native mode: the application's DBI itself is swept; shadow mode: only the private shadow DBI
	swept := fmt.Sprintf("data%d", bi)
	if !native {
		swept = fmt.Sprintf("_sync_shadow_data%d", bi)
	}
	other := fmt.Sprintf("zz%d", bi)
	appPlain := fmt.Sprintf("data%d", bi) // shadow mode: the application's plain DBI must never be touched
	keyOf := func(k int) []byte { return []byte(fmt.Sprintf("key-%03d", k)) }
	plainBefore := map[string]string{}
	err = env.Update(func(txn *lmdb.Txn) error {
		d, err := txn.OpenDBI(swept, lmdb.Create)
		if err != nil {
			return err
		}
		for k, e := range beh[0].DBI {
			if e.Kind != "none" {
				if err := txn.Put(d, keyOf(k+1), swValue(e, now), 0); err != nil {
					return err
				}
			}
		}
		o, err := txn.OpenDBI(other, lmdb.Create)
		if err != nil {
			return err
		}
		if native {
			if err := txn.Put(o, []byte("x"), swValue(swEntry{"young", 1}, now), 0); err != nil {
				return err
			}
		} else {
			// a plain application DBI whose values would look like garbage or like expired markers to the sweeper
			if err := txn.Put(o, []byte("x"), []byte("plain"), 0); err != nil {
				return err
			}
			p, err := txn.OpenDBI(appPlain, lmdb.Create)
			if err != nil {
				return err
			}
			for k := 1; k <= len(beh[0].DBI); k++ {
				v := swValue(swEntry{"old", 7}, now) // plain application bytes that happen to parse as an expired marker
				if err := txn.Put(p, keyOf(k), v, 0); err != nil {
					return err
				}
				plainBefore[string(keyOf(k))] = string(v)
			}
		}
		return nil
	})
	if err != nil {
		return err
	}
	l := logrus.New()
	l.SetLevel(logrus.PanicLevel)
	sw := sweeper.New("default", config.Sweeper{Enabled: true, RetentionDays: swRetentionDays, LockDuration: time.Nanosecond, ReleaseDuration: time.Microsecond}, env, l, native)
	g := &sweepGate{parked: make(chan struct{}), resume: make(chan struct{})}
	sweepMu.Lock()
	sweepGates[swept] = g
	sweepMu.Unlock()
	defer func() {
		sweepMu.Lock()
		delete(sweepGates, swept)
		sweepMu.Unlock()
	}()
	bad := func(class string, si int, format string, a ...interface{}) {
		sig := map[string]interface{}{"prop": "C13", "class": class, "native": native}
		R.Bad(map[string]interface{}{"behaviour": beh[:si+1], "native": native, "checkEvery": in.CheckEvery}, sig,
			"step %d (%s): "+format, append([]interface{}{si, beh[si].Act.Name}, a...)...)
	}
	var done chan error
	running := false
	// drain lets a running pass finish before the environment is closed
	drain := func() {
		if !running {
			return
		}
		deadline := time.After(20 * time.Second)
		for {
			select {
			case g.resume <- struct{}{}:
			case <-g.parked:
			case <-done:
				running = false
				return
			case <-deadline:
				return
			}
		}
	}
	defer drain()
	for si, st := range beh {
		a := st.Act
		R.Add(1, 0, 0)
		switch a.Name {
		case "init", "begin", "finish":
		case "app":
			err := env.Update(func(txn *lmdb.Txn) error {
				d, err := txn.OpenDBI(swept, 0)
				if err != nil {
					return err
				}
				if a.Kind == "none" {
					return txn.Del(d, keyOf(a.K), nil)
				}
				return txn.Put(d, keyOf(a.K), swValue(st.DBI[a.K-1], now), 0)
			})
			if err != nil {
				return err
			}
		case "slice":
			if !running {
				done = make(chan error, 1)
				go func() { done <- sw.VerifSweepOnce(context.Background()) }()
				running = true
			} else {
				g.resume <- struct{}{}
			}
			select {
			case <-g.parked:
				if !a.More {
					bad("slicing", si, "the real pass takes another write-lock slice, the specification has finished (scanned %v)", a.Scanned)
					return nil
				}
			case err := <-done:
				running = false
				if err != nil {
					bad("sweep-error", si, "sweep failed: %v", err)
					return nil
				}
				if a.More {
					bad("slicing", si, "the real pass ended, the specification continues with another slice")
					return nil
				}
			case <-time.After(20 * time.Second):
				bad("hang", si, "sweeper neither yields nor returns")
				return nil
			}
		}
		// compare content
		got := make([]swEntry, len(st.DBI))
		err := env.View(func(txn *lmdb.Txn) error {
			d, err := txn.OpenDBI(swept, 0)
			if err != nil {
				return err
			}
			for k := 1; k <= len(st.DBI); k++ {
				v, err := txn.Get(d, keyOf(k))
				if lmdb.IsNotFound(err) {
					got[k-1] = swEntry{"none", 0}
					continue
				}
				if err != nil {
					return err
				}
				h, perr := ParseRaw(v)
				if perr != nil {
					return perr
				}
				kind := "live"
				if h.Flags&1 != 0 {
					kind = "young"
					if time.Unix(0, int64(h.TS)).Before(now.Add(-swRetention)) {
						kind = "old"
					}
				}
				got[k-1] = swEntry{kind, int(h.TxnID)}
				if !strings.HasPrefix(string(h.Value), "value-") && kind == "live" {
					return fmt.Errorf("live value altered: %q", h.Value)
				}
			}
			if !native {
				p, err := txn.OpenDBI(appPlain, 0)
				if err != nil {
					return err
				}
				n := 0
				for k, want := range plainBefore {
					v, err := txn.Get(p, []byte(k))
					if err != nil || string(v) != want {
						bad("touched-app-data", si, "shadow mode: the sweeper changed the application's DBI (key %s)", k)
					}
					n++
				}
			}
			return nil
		})
		if err != nil {
			bad("content", si, "%v", err)
			return nil
		}
		if fmt.Sprint(got) != fmt.Sprint(st.DBI) {
			cls := "content-differs"
			for k := range got {
				if got[k].Kind == "none" && st.DBI[k].Kind != "none" && st.DBI[k].Kind != "old" {
					cls = "removed-live-or-young"
				}
				if got[k].Kind == "old" && st.DBI[k].Kind == "none" {
					cls = "expired-marker-survives"
				}
			}
			bad(cls, si, "DBI holds %v, specification %v", got, st.DBI)
			return nil
		}
	}
	drain()
	if len(beh) > 3 {
		R.Add(0, 1, 0)
	}
	if bi%401 == 3 {
		var acts []string
		for _, s := range beh {
			acts = append(acts, fmt.Sprintf("%s%v", s.Act.Name, s.Act.Scanned))
		}
		R.Sample(map[string]interface{}{"behaviour": acts, "native": native})
	}
	return nil
}

func init() { Commands["sweepfree"] = cmdSweepFree }

// cmdSweepFree: one real pass with the production slice size (1000 records) over several thousand entries in
// several DBIs while a concurrent application writer puts and marks keys at random; afterwards every marker
// that was expired at the start and untouched must be gone and everything else untouched must be identical.
func cmdSweepFree(args []string) error {
	R := NewResult()
	rng := Rng()
	rounds := 3
	if len(args) > 0 && args[0] == "thorough" {
		rounds = 12
	}
	for round := 0; round < rounds; round++ {
		env, dir, err := TempEnv()
		if err != nil {
			return err
		}
		now := time.Now()
		n := 3500 + rng.Intn(3000)
		dbis := []string{"alpha", "beta", "gamma"}
		start := map[string]map[string]string{}
		kinds := []string{"live", "old", "young"}
		err = env.Update(func(txn *lmdb.Txn) error {
			for di, name := range dbis {
				d, err := txn.OpenDBI(name, lmdb.Create)
				if err != nil {
					return err
				}
				start[name] = map[string]string{}
				cnt := n
				if di == 2 {
					cnt = 7 // a small DBI that never reaches the slice limit
				}
				run := 0
				kind := "live"
				for k := 0; k < cnt; k++ {
					if run == 0 { // runs of identical markers (bulk deletes) and of mixed entries
						kind = kinds[rng.Intn(3)]
						run = 1 + rng.Intn(1500)
					}
					run--
					e := swEntry{kind, 5}
					if rng.Intn(3) == 0 {
						e = swEntry{kinds[rng.Intn(3)], 5}
					}
					key := []byte(fmt.Sprintf("key-%08d", k))
					v := swValue(e, now)
					if err := txn.Put(d, key, v, 0); err != nil {
						return err
					}
					start[name][string(key)] = string(v)
				}
			}
			return nil
		})
		if err != nil {
			return err
		}
		l := logrus.New()
		l.SetLevel(logrus.PanicLevel)
		sw := sweeper.New("default", config.Sweeper{Enabled: true, RetentionDays: swRetentionDays, LockDuration: time.Nanosecond, ReleaseDuration: 200 * time.Microsecond}, env, l, true)
		touched := map[string]bool{}
		var tmu sync.Mutex
		stop := make(chan struct{})
		var wg sync.WaitGroup
		wg.Add(1)
		wrng := rand.New(rand.NewSource(Seed()*77 + int64(round)))
		go func() {
			defer wg.Done()
			for {
				select {
				case <-stop:
					return
				default:
				}
				name := dbis[wrng.Intn(2)]
				key := []byte(fmt.Sprintf("key-%08d", wrng.Intn(n+50)))
				e := swEntry{kinds[wrng.Intn(3)], 9}
				tmu.Lock()
				touched[name+"/"+string(key)] = true
				tmu.Unlock()
				_ = env.Update(func(txn *lmdb.Txn) error {
					d, err := txn.OpenDBI(name, 0)
					if err != nil {
						return err
					}
					return txn.Put(d, key, swValue(e, time.Now()), 0)
				})
			}
		}()
		err = sw.VerifSweepOnce(context.Background())
		close(stop)
		wg.Wait()
		R.Add(1, 1, 1)
		sig := func(class string) map[string]interface{} {
			return map[string]interface{}{"prop": "C13", "class": class, "free": true}
		}
		if err != nil {
			R.Bad(round, sig("sweep-error"), "sweep failed: %v", err)
		}
		cutoff := uint64(now.Add(-swRetention).UnixNano())
		_ = env.View(func(txn *lmdb.Txn) error {
			for _, name := range dbis {
				d, err := txn.OpenDBI(name, 0)
				if err != nil {
					return err
				}
				nbad := 0
				for key, before := range start[name] {
					if touched[name+"/"+key] {
						continue
					}
					h, _ := ParseRaw([]byte(before))
					expired := h.Flags&1 != 0 && h.TS < cutoff
					v, err := txn.Get(d, []byte(key))
					present := err == nil
					if expired && present && nbad < 5 {
						nbad++
						R.Bad(map[string]interface{}{"round": round, "dbi": name, "key": key}, sig("expired-marker-survives"), "DBI %s: expired marker %s survived the pass", name, key)
					}
					if !expired && (!present || string(v) != before) && nbad < 5 {
						nbad++
						R.Bad(map[string]interface{}{"round": round, "dbi": name, "key": key}, sig("removed-live-or-young"), "DBI %s: entry %s (not an expired marker) was removed or altered by the pass", name, key)
					}
					R.Add(1, 0, 0)
				}
			}
			return nil
		})
		CloseEnv(env, dir)
	}
	R.Sample("free-running passes over 3 DBIs of 3500-6500 entries (runs of identical markers up to 1500 long) with a concurrent random writer")
	return Emit(R)
}

// cmdSweepMalformed <property>: stored values that are not well-formed version-0 headers among expired markers.
func cmdSweepMalformed(args []string) error {
	prop := "C13"
	if len(args) > 0 {
		prop = args[0]
	}
	R := NewResult()
	// values that are not well-formed version-0 headers (another header version, an extension count beyond the
	// bytes present, too short) among expired markers: the pass refuses them with an error, it never takes them
	// for markers and removes them (C14: misread values)
	now := time.Now()
	oldTS := uint64(now.Add(-2 * swRetention).UnixNano())
	good := MakeRaw(oldTS, 5, 1, 0, nil)
	otherVersion := append([]byte(nil), good...)
	otherVersion[16] = 1
	tooManyExt := append([]byte(nil), good...)
	tooManyExt[22], tooManyExt[23] = 0, 9
	for mi, bad := range [][]byte{otherVersion, tooManyExt, good[:20]} {
		env, dir, err := TempEnv()
		if err != nil {
			return err
		}
		err = env.Update(func(txn *lmdb.Txn) error {
			d, err := txn.OpenDBI("data", lmdb.Create)
			if err != nil {
				return err
			}
			_ = txn.Put(d, []byte("a-live"), MakeRaw(uint64(now.UnixNano()), 5, 0, 0, []byte("v")), 0)
			_ = txn.Put(d, []byte("b-expired"), good, 0)
			_ = txn.Put(d, []byte("c-malformed"), bad, 0)
			return txn.Put(d, []byte("d-expired"), good, 0)
		})
		if err != nil {
			return err
		}
		l := logrus.New()
		l.SetLevel(logrus.PanicLevel)
		sw := sweeper.New("default", config.Sweeper{Enabled: true, RetentionDays: swRetentionDays, LockDuration: time.Millisecond, ReleaseDuration: time.Microsecond}, env, l, true)
		serr := sw.VerifSweepOnce(context.Background())
		var after []byte
		_ = env.View(func(txn *lmdb.Txn) error {
			d, err := txn.OpenDBI("data", 0)
			if err != nil {
				return nil
			}
			v, err := txn.Get(d, []byte("c-malformed"))
			if err == nil {
				after = append([]byte(nil), v...)
			}
			return nil
		})
		R.Add(1, 1, 1)
		sg := map[string]interface{}{"prop": prop, "class": "malformed-value", "kind": mi}
		if !bytes.Equal(after, bad) {
			R.Bad(mi, sg, "a stored value that is not a well-formed version-0 header (kind %d) was removed or altered by the sweeper pass (now %x)", mi, after)
		} else if serr == nil {
			R.Bad(mi, sg, "the sweeper pass met a value that is not a well-formed version-0 header (kind %d) and reported no error", mi)
		}
		CloseEnv(env, dir)
	}
	return Emit(R)
}
