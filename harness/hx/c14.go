package hx

import (
	"bytes"
	"encoding/binary"
	"errors"
	"path/filepath"

	"github.com/PowerDNS/lightningstream/lmdbenv/header"
)

func init() { Commands["c14"] = cmdC14 }

type hdrRow struct {
	Total    int    `json:"total"`
	Version  int    `json:"version"`
	Flags    int    `json:"flags"`
	NumExtra int    `json:"numExtra"`
	Res      string `json:"res"`
	Offset   int    `json:"offset"`
}

func cmdC14(args []string) error {
	var rows []hdrRow
	if err := ReadJSON(filepath.Join(args[0], "header_rows.json"), &rows); err != nil {
		return err
	}
	R := NewResult()
	rng := Rng()
	tss := []uint64{0, 1, 1700000000000000000, 1<<63 - 1, 1<<64 - 1}
	for ri, row := range rows {
		// concretise: build the raw bytes by the documented layout, random payload
		b := make([]byte, row.Total)
		rng.Read(b)
		ts := tss[ri%len(tss)]
		txn := rng.Uint64()
		if row.Total >= 24 {
			binary.BigEndian.PutUint64(b[0:8], ts)
			binary.BigEndian.PutUint64(b[8:16], txn)
			b[16] = byte(row.Version)
			b[17] = byte(row.Flags)
			b[18], b[19], b[20], b[21] = 0, 0, 0, 0
			binary.BigEndian.PutUint16(b[22:24], uint16(row.NumExtra))
		}
		orig := append([]byte(nil), b...)
		sig := map[string]interface{}{"prop": "C14", "class": "parse", "numExtraBig": row.NumExtra >= 8192}
		h, val, err := header.Parse(b)
		sval, serr := header.Skip(b)
		R.Evaluations += 2
		res := "ok"
		switch {
		case errors.Is(err, header.ErrTooShort):
			res = "tooshort"
		case errors.Is(err, header.ErrVersion):
			res = "version"
		case err != nil:
			res = "other:" + err.Error()
		}
		if res != row.Res {
			R.Bad(row, sig, "Parse of a %d-byte value (version %d, %d extension blocks) gives %s, specification %s", row.Total, row.Version, row.NumExtra, res, row.Res)
			continue
		}
		if (serr == nil) != (err == nil) || (serr != nil && !errors.Is(serr, err)) {
			R.Bad(row, sig, "Skip (%v) and Parse (%v) disagree", serr, err)
		}
		if res == "ok" {
			if !bytes.Equal(val, orig[row.Offset:]) || !bytes.Equal(sval, orig[row.Offset:]) {
				R.Bad(row, sig, "application value misread: Parse returns %d bytes, Skip %d, specification %d bytes from offset %d", len(val), len(sval), row.Total-row.Offset, row.Offset)
			}
			if uint64(h.Timestamp) != ts || uint64(h.TxnID) != txn || int(h.Flags) != row.Flags || h.NumExtra != row.NumExtra || !bytes.Equal(h.Extra, orig[24:row.Offset]) {
				R.Bad(row, sig, "header fields misread: %+v", h)
			}
			// re-encoding what was parsed gives the original bytes
			if re := append(h.Bytes(), val...); !bytes.Equal(re, orig) {
				R.Bad(row, sig, "Bytes() of the parsed header does not reproduce the stored bytes")
			}
		}
		if !bytes.Equal(b, orig) {
			R.Bad(row, sig, "Parse modified its input")
		}
		R.Distinct++
	}
	if len(rows) > 0 {
		R.Sample(rows[len(rows)/3])
	}
	// encode side: Header.Bytes / PutBasic for all flag bytes and extension counts incl. odd extra lengths
	for _, fl := range []int{0, 1, 2, 128, 255} {
		for _, n := range []int{0, 1, 2, 255, 256, 8191, 8192, 65535} {
			for _, extraLen := range []int{0, 1, 8, 9, 8 * n} {
				hd := header.Header{Timestamp: header.Timestamp(tss[(fl+n)%len(tss)]), TxnID: header.TxnID(rng.Uint64()), Flags: header.Flags(fl), NumExtra: n}
				if extraLen > 0 {
					hd.Extra = bytes.Repeat([]byte{0xAB}, extraLen)
				}
				enc := hd.Bytes()
				R.Evaluations++
				wantN := n
				if c := (extraLen + 7) / 8; c > wantN {
					wantN = c
				}
				if wantN > 65535 {
					continue
				}
				raw, err := ParseRaw(append(append([]byte(nil), enc...), 'v'))
				sig := map[string]interface{}{"prop": "C14", "class": "encode"}
				if err != nil || raw.NumExtra != wantN || raw.TS != uint64(hd.Timestamp) || raw.TxnID != uint64(hd.TxnID) || int(raw.Flags) != fl || raw.Reserved != [4]byte{} || string(raw.Value) != "v" {
					R.Bad(map[string]interface{}{"flags": fl, "numExtra": n, "extraLen": extraLen}, sig, "Header.Bytes() writes %+v (%v) for flags=%d numExtra=%d extra=%d bytes", raw, err, fl, n, extraLen)
				}
			}
		}
		b := bytes.Repeat([]byte{0xFF}, 24)
		header.PutBasic(b, 77, 88, header.Flags(fl))
		raw, err := ParseRaw(b)
		R.Evaluations++
		if err != nil || raw.TS != 77 || raw.TxnID != 88 || int(raw.Flags) != fl || raw.Reserved != [4]byte{} || raw.NumExtra != 0 {
			R.Bad(fl, map[string]interface{}{"prop": "C14", "class": "encode"}, "PutBasic leaves %+v (%v)", raw, err)
		}
	}
	R.Counters["rows"] = len(rows)
	return Emit(R)
}
