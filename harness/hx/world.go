package hx

import (
	"bytes"
	"context"
	"fmt"
	"io"
	"os"
	"sort"
	"strconv"
	"strings"
	"sync"
	"time"

	"github.com/PowerDNS/lightningstream/config"
	"github.com/PowerDNS/lightningstream/lmdbenv"
	"github.com/PowerDNS/lightningstream/lmdbenv/header"
	"github.com/PowerDNS/lightningstream/snapshot"
	"github.com/PowerDNS/lightningstream/syncer"
	"github.com/PowerDNS/lmdb-go/lmdb"
	"github.com/PowerDNS/simpleblob"
	"github.com/PowerDNS/simpleblob/backends/memory"
	"github.com/c2h5oh/datasize"
)

// World is a fleet of real Syncer instances on real LMDB environments sharing
// one in-memory bucket; it is stepped by the actions of LSProtocol.tla.
type World struct {
	Native  bool
	Conc    Conc
	KeyConc KeyConc
	DBIName string
	Bucket  simpleblob.Interface
	Insts   map[int]*WInst
	// shadow mode: real stamp -> abstract clock value
	tsAbs        map[uint64]int
	maxReal      uint64
	Padding      bool
	DynTS        bool // name real stamps dynamically also in native mode (loop replays)
	Sweeper      config.Sweeper
	AgeSnapshots bool // merges see snapshot metadata 30 days older than it is
	DupSortOpt   bool // option dupsort_hack switched on although no DBI is a dupsort DBI
	// every version ever observed in a headered DBI (independent LWW reference)
	Seen map[int]map[RVer]bool
	R    *Result
}

// RVer is a concrete version (reference oracle works on real bytes).
type RVer struct {
	TS  uint64
	Del bool
	Val string
}

type WInst struct {
	ID         int
	Name       string
	Env        *lmdb.Env
	Dir        string
	S          *syncer.Syncer
	LastSynced header.TxnID
	Snaps      []string // names of uploaded snapshots, in order
}

type WAct struct {
	Name     string         `json:"name"`
	I        int            `json:"i"`
	K        int            `json:"k"`
	V        *Ver           `json:"v,omitempty"`
	Val      int            `json:"val"`
	From     int            `json:"from"`
	Seq      int            `json:"seq"`
	Now      int            `json:"now"`
	Changed  bool           `json:"changed"`
	Captured bool           `json:"captured"`
	Img      map[string]Ver `json:"img,omitempty"`
}

type WStep struct {
	Act WAct                      `json:"act"`
	DB  map[string]map[string]Ver `json:"db"`
	App map[string]map[string]int `json:"app"`
}

func NewWorld(native bool, insts []int, conc Conc, kc KeyConc, R *Result) (*World, error) {
	w := &World{Native: native, Conc: conc, KeyConc: kc, DBIName: "data", Bucket: memory.New(),
		Insts: map[int]*WInst{}, tsAbs: map[uint64]int{0: 0}, Seen: map[int]map[RVer]bool{}, R: R}
	for _, i := range insts {
		if err := w.AddInst(i, false); err != nil {
			w.Close()
			return nil, err
		}
	}
	return w, nil
}

func (w *World) config(name string) config.Config {
	// the shipped defaults (sweeper disabled with retention_days 370, cleanup disabled, ...), with the intervals
	// shortened and the forced-snapshot interval off; a sweeper configuration of the scenario replaces the default
	c := config.Default()
	c.Instance = name
	c.LMDBs = map[string]config.LMDB{}
	c.LMDBPollInterval = time.Millisecond
	c.StoragePollInterval = time.Millisecond
	c.StorageRetryInterval = time.Millisecond
	c.StorageRetryCount = 1
	c.StorageForceSnapshotInterval = 0
	c.LMDBScrapeSmaps = false
	if w.Sweeper.Enabled || w.Sweeper.RetentionDays != 0 {
		c.Sweeper = w.Sweeper
	}
	c.LMDBs["default"] = config.LMDB{SchemaTracksChanges: w.Native, HeaderExtraPaddingBlock: w.Padding, DupSortHack: w.DupSortOpt && !w.Native}
	return c
}

// AddInst creates (or re-creates on the same directory) instance i.
func (w *World) AddInst(i int, keepEnv bool) error {
	name := "i" + strconv.Itoa(i)
	var in *WInst
	if old, ok := w.Insts[i]; ok && keepEnv {
		in = old
	} else {
		dir, err := os.MkdirTemp(os.Getenv("VERIF_TMP"), "verif-w-")
		if err != nil {
			return err
		}
		env, err := lmdbenv.NewWithOptions(dir, lmdbenv.Options{Create: true, MapSize: 64 * datasize.MB})
		if err != nil {
			return err
		}
		in = &WInst{ID: i, Name: name, Env: env, Dir: dir}
	}
	c := w.config(name)
	s, err := syncer.New("default", in.Env, w.Bucket, c, c.LMDBs["default"], syncer.Options{})
	if err != nil {
		return err
	}
	in.S = s
	in.LastSynced = 0
	w.Insts[i] = in
	return nil
}

func (w *World) Close() {
	for _, in := range w.Insts {
		CloseEnv(in.Env, in.Dir)
	}
}

func (w *World) key(k int) []byte { return w.KeyConc.Keys[k-1] }

func (w *World) keyAbs(b []byte) int {
	for i, k := range w.KeyConc.Keys {
		if bytes.Equal(k, b) {
			return i + 1
		}
	}
	return 0
}

func (w *World) dbiFlags() uint {
	fl := uint(lmdb.Create)
	if w.KeyConc.IntKey {
		fl |= 0x08
	}
	return fl
}

// ---- application side

func (w *World) NativeWrite(i, k int, v Ver) error {
	in := w.Insts[i]
	return in.Env.Update(func(txn *lmdb.Txn) error {
		dbi, err := txn.OpenDBI(w.DBIName, w.dbiFlags())
		if err != nil {
			return err
		}
		var fl byte
		if v.Del {
			fl = 1
		}
		// written the way a native application does: header with its own timestamp and this transaction's id
		val := MakeRaw(w.Conc.TS[v.TS], uint64(txn.ID()), fl, 0, w.Conc.Val[v.Val])
		return txn.Put(dbi, w.key(k), val, 0)
	})
}

func (w *World) ShadowPut(i, k, val int) error {
	in := w.Insts[i]
	return in.Env.Update(func(txn *lmdb.Txn) error {
		dbi, err := txn.OpenDBI(w.DBIName, w.dbiFlags())
		if err != nil {
			return err
		}
		return txn.Put(dbi, w.key(k), w.Conc.Val[val], 0)
	})
}

func (w *World) ShadowDel(i, k int) error {
	in := w.Insts[i]
	return in.Env.Update(func(txn *lmdb.Txn) error {
		dbi, err := txn.OpenDBI(w.DBIName, w.dbiFlags())
		if err != nil {
			return err
		}
		return txn.Del(dbi, w.key(k), nil)
	})
}

// ---- LS side

func (w *World) lastTxn(i int) int64 {
	info, err := w.Insts[i].Env.Info()
	if err != nil {
		return -1
	}
	return info.LastTxnID
}

// Upload = SendOnce, with the bookkeeping syncLoop does around it.
var sendOnceMu sync.Mutex

func (w *World) Upload(i int) (name string, err error) {
	in := w.Insts[i]
	before, _ := w.Bucket.List(context.Background(), "")
	// SendOnce ends with runtime.GC(): behaviours replayed in parallel are kept from calling it at the same moment
	// (a stall of the Go runtime with all workers parked in runtime.GC() was seen once; DESIGN.md s.15)
	sendOnceMu.Lock()
	txnID, err := in.S.SendOnce(context.Background(), in.Env)
	sendOnceMu.Unlock()
	if err != nil {
		return "", err
	}
	in.LastSynced = txnID
	after, _ := w.Bucket.List(context.Background(), "")
	seen := map[string]bool{}
	for _, b := range before {
		seen[b.Name] = true
	}
	for _, b := range after {
		if !seen[b.Name] {
			name = b.Name
		}
	}
	if name == "" {
		return "", fmt.Errorf("SendOnce stored no new blob")
	}
	in.Snaps = append(in.Snaps, name)
	return name, nil
}

// LoadBlob decodes a stored blob into an Update.
func (w *World) LoadBlob(name string) (snapshot.Update, error) {
	data, err := w.Bucket.Load(context.Background(), name)
	if err != nil {
		return snapshot.Update{}, err
	}
	snap, err := snapshot.LoadData(data)
	if err != nil {
		return snapshot.Update{}, err
	}
	ni, err := snapshot.ParseName(name)
	if err != nil {
		return snapshot.Update{}, err
	}
	return snapshot.Update{Snapshot: snap, NameInfo: ni, BlobSize: datasize.ByteSize(len(data))}, nil
}

// Merge = LoadOnce of the seq-th snapshot of instance from, with syncLoop's bookkeeping.
func (w *World) Merge(i, from, seq int) (localChanged bool, err error) {
	in := w.Insts[i]
	src := w.Insts[from]
	if seq < 1 || seq > len(src.Snaps) {
		return false, fmt.Errorf("no snapshot %d of instance %d", seq, from)
	}
	upd, err := w.LoadBlob(src.Snaps[seq-1])
	if err != nil {
		return false, err
	}
	if w.AgeSnapshots && upd.Snapshot != nil {
		// the snapshot was taken long ago (an instance that was offline): the stale-marker cutoff of a load is
		// "now minus retention", whatever the age of the snapshot
		upd.Snapshot.Meta.TimestampNano -= uint64(30 * 24 * time.Hour)
	}
	txnID, localChanged, err := in.S.LoadOnce(context.Background(), in.Env, src.Name, upd, in.LastSynced)
	if err != nil {
		return false, err
	}
	if !localChanged {
		in.LastSynced = txnID
	}
	return localChanged, nil
}

// ---- projection of the real state

type RawEntry struct {
	Key []byte
	Val []byte
}

func (w *World) readRaw(i int, dbiName string) ([]RawEntry, bool, error) {
	var out []RawEntry
	exists := true
	err := w.Insts[i].Env.View(func(txn *lmdb.Txn) error {
		dbi, err := txn.OpenDBI(dbiName, 0)
		if lmdb.IsNotFound(err) {
			exists = false
			return nil
		}
		if err != nil {
			return err
		}
		cur, err := txn.OpenCursor(dbi)
		if err != nil {
			return err
		}
		defer cur.Close()
		for {
			k, v, e := cur.Get(nil, nil, lmdb.Next)
			if lmdb.IsNotFound(e) {
				return nil
			}
			if e != nil {
				return e
			}
			out = append(out, RawEntry{append([]byte(nil), k...), append([]byte(nil), v...)})
		}
	})
	return out, exists, err
}

func (w *World) headeredDBI() string {
	if w.Native {
		return w.DBIName
	}
	return syncer.SyncDBIShadowPrefix + w.DBIName
}

// absTS maps a real timestamp to its abstract value.
func (w *World) absTS(ts uint64) (int, bool) {
	if w.Native && !w.DynTS {
		return w.Conc.AbsTS(ts)
	}
	a, ok := w.tsAbs[ts]
	return a, ok
}

// Project reads instance i's headered DBI and application view as abstract state.
// now is the abstract clock value of the LS step just executed (shadow mode): stamps
// that were never seen before must all be equal, newer than all earlier ones, and are named now.
func (w *World) Project(i int, nKeys int, now int) (db map[string]Ver, app map[string]int, problems []string) {
	db = map[string]Ver{}
	app = map[string]int{}
	for k := 1; k <= nKeys; k++ {
		db[strconv.Itoa(k)] = Ver{TS: -1}
		app[strconv.Itoa(k)] = -1
	}
	raw, _, err := w.readRaw(i, w.headeredDBI())
	if err != nil {
		return db, app, []string{err.Error()}
	}
	lastTxn := w.lastTxn(i)
	var fresh []uint64
	for _, e := range raw {
		k := w.keyAbs(e.Key)
		if k == 0 {
			problems = append(problems, fmt.Sprintf("unexpected key %x in %s", e.Key, w.headeredDBI()))
			continue
		}
		h, err := ParseRaw(e.Val)
		if err != nil {
			problems = append(problems, fmt.Sprintf("C14: key %d: %v", k, err))
			continue
		}
		if int64(h.TxnID) > lastTxn {
			problems = append(problems, fmt.Sprintf("C14: key %d carries txnid %d beyond the last committed %d", k, h.TxnID, lastTxn))
		}
		if h.Flags&1 != 0 && len(h.Value) != 0 {
			problems = append(problems, fmt.Sprintf("C14: key %d: deleted entry carries a value", k))
		}
		if _, ok := w.absTS(h.TS); !ok && (!w.Native || w.DynTS) {
			fresh = append(fresh, h.TS)
		}
		if w.Seen[k] == nil {
			w.Seen[k] = map[RVer]bool{}
		}
		w.Seen[k][RVer{h.TS, h.Flags&1 != 0, string(h.Value)}] = true
	}
	if len(fresh) > 0 {
		f0 := fresh[0]
		for _, f := range fresh {
			if f != f0 {
				problems = append(problems, "one LS transaction stamped two different times")
			}
		}
		if f0 <= w.maxReal {
			problems = append(problems, fmt.Sprintf("new stamp %d is not newer than an earlier stamp %d", f0, w.maxReal))
		}
		w.tsAbs[f0] = now
		w.maxReal = f0
	}
	for _, e := range raw {
		k := w.keyAbs(e.Key)
		h, err := ParseRaw(e.Val)
		if k == 0 || err != nil {
			continue
		}
		ts, ok := w.absTS(h.TS)
		if !ok {
			problems = append(problems, fmt.Sprintf("key %d: timestamp %d not in the concretisation", k, h.TS))
			continue
		}
		v, ok := w.Conc.AbsVal(h.Value)
		if !ok {
			problems = append(problems, fmt.Sprintf("key %d: unknown value %q", k, h.Value))
			continue
		}
		db[strconv.Itoa(k)] = Ver{TS: ts, Del: h.Flags&1 != 0, Val: v}
	}
	// application view
	if w.Native {
		for k, v := range db {
			if !v.Absent() && !v.Del {
				app[k] = v.Val
			}
		}
	} else {
		rawApp, _, err := w.readRaw(i, w.DBIName)
		if err != nil {
			problems = append(problems, err.Error())
		}
		for _, e := range rawApp {
			k := w.keyAbs(e.Key)
			v, ok := w.Conc.AbsVal(e.Val)
			if k == 0 || !ok {
				problems = append(problems, fmt.Sprintf("unexpected application entry %x=%q", e.Key, e.Val))
				continue
			}
			app[strconv.Itoa(k)] = v
		}
	}
	return
}

// DecodeImage decodes a stored snapshot into the abstract image of the data DBI and checks C06's
// structural clauses on the way (private DBIs absent, name and metadata consistent).
func (w *World) DecodeImage(i int, name string) (img map[string]Ver, problems []string) {
	img = map[string]Ver{}
	upd, err := w.LoadBlob(name)
	if err != nil {
		return img, []string{"C06: stored blob does not decode: " + err.Error()}
	}
	in := w.Insts[i]
	m := upd.Snapshot.Meta
	ni := upd.NameInfo
	if m.DatabaseName != "default" || ni.SyncerName != "default" {
		problems = append(problems, "C06: database name in name/meta is wrong")
	}
	if m.InstanceID != in.Name || ni.InstanceID != in.Name {
		problems = append(problems, "C06: instance in name/meta is wrong")
	}
	if uint64(ni.Timestamp.UnixNano()) != m.TimestampNano {
		problems = append(problems, "C06: name timestamp differs from metadata timestamp")
	}
	if m.LmdbTxnID != w.lastTxn(i) {
		problems = append(problems, fmt.Sprintf("C06: metadata txn id %d, LMDB last committed %d", m.LmdbTxnID, w.lastTxn(i)))
	}
	for _, d := range upd.Snapshot.Databases {
		if strings.HasPrefix(d.Name(), syncer.SyncDBIPrefix) {
			problems = append(problems, "C06: private DBI "+d.Name()+" in snapshot")
			continue
		}
		if d.Name() != w.DBIName {
			problems = append(problems, "C06: unexpected DBI "+d.Name())
			continue
		}
		wantFlags := uint64(0)
		if w.KeyConc.IntKey {
			wantFlags = 0x08
		}
		if d.Flags() != wantFlags {
			problems = append(problems, fmt.Sprintf("C06: DBI flags %#x, want %#x", d.Flags(), wantFlags))
		}
		d.ResetCursor()
		for {
			kv, err := d.Next()
			if err == io.EOF {
				break
			}
			if err != nil {
				problems = append(problems, "C06: "+err.Error())
				break
			}
			k := w.keyAbs(kv.Key)
			ts, ok1 := w.absTS(kv.TimestampNano)
			v, ok2 := w.Conc.AbsVal(kv.Value)
			if k == 0 || !ok1 || !ok2 {
				problems = append(problems, fmt.Sprintf("C06: snapshot entry %x ts=%d val=%q not explained", kv.Key, kv.TimestampNano, kv.Value))
				continue
			}
			if kv.Flags&^1 != 0 {
				problems = append(problems, "C06: unsynced flag bits in snapshot entry")
			}
			img[strconv.Itoa(k)] = Ver{TS: ts, Del: kv.Flags&1 != 0, Val: v}
		}
	}
	return
}

// Winner is the independent LWW reference on concrete versions: highest timestamp; on a tie the
// lower value bytes; on a further tie the deletion.
func Winner(vs map[RVer]bool) (RVer, bool) {
	var list []RVer
	for v := range vs {
		list = append(list, v)
	}
	if len(list) == 0 {
		return RVer{}, false
	}
	sort.Slice(list, func(a, b int) bool {
		x, y := list[a], list[b]
		if x.TS != y.TS {
			return x.TS > y.TS
		}
		if x.Val != y.Val {
			return x.Val < y.Val
		}
		return x.Del && !y.Del
	})
	return list[0], true
}

// dbiNames lists the named DBIs of instance i (sorted, joined).
func (w *World) dbiNames(i int) string {
	var names []string
	_ = w.Insts[i].Env.View(func(txn *lmdb.Txn) error {
		n, err := lmdbenv.ReadDBINames(txn)
		names = n
		return err
	})
	sort.Strings(names)
	return strings.Join(names, ",")
}

func makeTempDir() (string, error) { return os.MkdirTemp(os.Getenv("VERIF_TMP"), "verif-w-") }
func removeDir(d string)           { os.RemoveAll(d) }

// newSyncerWith creates a Syncer for an instance with an explicit configuration.
func newSyncerWith(w *World, in *WInst, c config.Config) (*syncer.Syncer, error) {
	s, err := syncer.New("default", in.Env, w.Bucket, c, c.LMDBs["default"], syncer.Options{})
	if err == nil {
		in.S = s
	}
	return s, err
}
