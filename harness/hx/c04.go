package hx

import (
	"math"
	"math/rand"
	"path/filepath"
	"time"

	"github.com/PowerDNS/lightningstream/config"
)

func init() { Commands["retention"] = cmdRetention }

type retRow struct {
	HalfDays int `json:"half_days"`
	CutoffU  int `json:"cutoff_u"`
	RDU      int `json:"rd_u"`
	RDMCU    int `json:"rdmc_u"`
}

const unitU = 36 * time.Second

func closeTo(a, b time.Duration) bool {
	d := float64(a - b)
	tol := math.Max(float64(time.Second), 1e-6*math.Abs(float64(b)))
	return math.Abs(d) <= tol
}

func cmdRetention(args []string) error {
	var rows []retRow
	if err := ReadJSON(filepath.Join(args[0], "retention_rows.json"), &rows); err != nil {
		return err
	}
	R := NewResult()
	check := func(sw config.Sweeper, c interface{}, wantRD, wantRDMC time.Duration, haveWant bool) {
		rd := sw.RetentionDuration()
		rdmc := sw.RetentionDurationMinusCutoff()
		R.Evaluations++
		sig := map[string]interface{}{"prop": "C04", "class": "retention", "cutoff_sign": sign(int64(sw.RetentionLoadCutoffDuration))}
		if rdmc > rd {
			R.Bad(c, sig, "load-side retention %v exceeds the sweeper retention %v (retention_days=%v cutoff=%v): swept markers bounce", rdmc, rd, sw.RetentionDays, sw.RetentionLoadCutoffDuration)
		}
		if rd > 0 && rdmc < rd/4-1 { // (not 4*rdmc: that overflows for retentions of centuries)
			R.Bad(c, sig, "load-side retention %v below a quarter of %v", rdmc, rd)
		}
		if haveWant && (!closeTo(rd, wantRD) || !closeTo(rdmc, wantRDMC)) {
			R.Bad(c, sig, "real RetentionDuration=%v RetentionDurationMinusCutoff=%v, specification %v / %v (retention_days=%v cutoff=%v)",
				rd, rdmc, wantRD, wantRDMC, sw.RetentionDays, sw.RetentionLoadCutoffDuration)
		}
		// the derived cut-offs for all t_sweep <= t_load
		base := time.Unix(1700000000, 0)
		for ts := 0; ts <= 6; ts++ {
			for tl := ts; tl <= 6; tl++ {
				tsw := base.Add(time.Duration(ts) * 12 * time.Hour)
				tld := base.Add(time.Duration(tl) * 12 * time.Hour)
				if tsw.Add(-rd).After(tld.Add(-rdmc)) {
					R.Bad(c, sig, "sweeper cut-off %v is later than the load cut-off %v", tsw.Add(-rd), tld.Add(-rdmc))
				}
			}
		}
	}
	for _, r := range rows {
		sw := config.Sweeper{Enabled: true, RetentionDays: float32(r.HalfDays) / 2, RetentionLoadCutoffDuration: time.Duration(r.CutoffU) * unitU}
		check(sw, r, time.Duration(r.RDU)*unitU, time.Duration(r.RDMCU)*unitU, true)
		R.Distinct++
	}
	if len(rows) > 0 {
		R.Sample(rows[len(rows)/2])
	}
	// seeded random configurations: the laws only
	rng := rand.New(rand.NewSource(Seed()))
	for i := 0; i < 20000; i++ {
		sw := config.Sweeper{Enabled: true, RetentionDays: float32(rng.Float64() * math.Pow(10, float64(rng.Intn(7)-1))), // up to 100 000 days
			RetentionLoadCutoffDuration: time.Duration((rng.Float64()*2 - 0.5) * math.Pow(10, float64(rng.Intn(8)+9)))}
		check(sw, map[string]interface{}{"retention_days": sw.RetentionDays, "cutoff": sw.RetentionLoadCutoffDuration.String()}, 0, 0, false)
	}
	// long retentions (years to centuries) with the default and with explicit margins
	for _, days := range []float32{370, 1078, 1079, 1100, 3650, 10000, 36500, 100000} {
		for _, cut := range []time.Duration{0, time.Hour, 240 * time.Hour, -time.Hour} {
			sw := config.Sweeper{Enabled: true, RetentionDays: days, RetentionLoadCutoffDuration: cut}
			check(sw, map[string]interface{}{"retention_days": days, "cutoff": cut.String()}, 0, 0, false)
		}
	}
	R.Counters["rows"] = len(rows)
	return Emit(R)
}

func sign(v int64) int {
	if v < 0 {
		return -1
	}
	if v > 0 {
		return 1
	}
	return 0
}
