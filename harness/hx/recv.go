package hx

import (
	"context"
	"encoding/json"
	"fmt"
	"math/rand"
	"os"
	"sort"
	"strconv"
	"sync"
	"time"

	"github.com/PowerDNS/lightningstream/config"
	"github.com/PowerDNS/lightningstream/snapshot"
	"github.com/PowerDNS/lightningstream/syncer/events"
	"github.com/PowerDNS/lightningstream/syncer/hooks"
	"github.com/PowerDNS/lightningstream/syncer/receiver"
	"github.com/PowerDNS/simpleblob"
	"github.com/PowerDNS/simpleblob/backends/memory"
	"github.com/sirupsen/logrus"
)

func init() {
	Commands["recvtrace"] = cmdRecvTrace
	Commands["recvcorrupt"] = cmdRecvCorrupt
}

// gatedBucket parks every Load call until the driver releases it with an outcome.
type gatedBucket struct {
	simpleblob.Interface
	mu       sync.Mutex
	failList bool
	parked   map[string]chan bool // name -> release channel (true = fail)
	loads    int
}

func (b *gatedBucket) List(ctx context.Context, prefix string) (simpleblob.BlobList, error) {
	b.mu.Lock()
	f := b.failList
	b.mu.Unlock()
	if f {
		return nil, errInjected
	}
	return b.Interface.List(ctx, prefix)
}

func (b *gatedBucket) Load(ctx context.Context, name string) ([]byte, error) {
	ch := make(chan bool, 1)
	b.mu.Lock()
	b.parked[name] = ch
	b.loads++
	b.mu.Unlock()
	var fail bool
	select {
	case fail = <-ch:
	case <-ctx.Done():
		return nil, ctx.Err()
	}
	if fail {
		return nil, errInjected
	}
	return b.Interface.Load(ctx, name)
}

type recvObs struct {
	Pending map[string]int `json:"pending"`
	Parked  map[string]int `json:"parked"`
	DL      int            `json:"dl"`
	DC      int            `json:"dc"`
}

type recvEvent struct {
	Ev   string  `json:"ev"`
	I    string  `json:"i"`
	Seq  int     `json:"seq"`
	Good bool    `json:"good"`
	OK   bool    `json:"ok"`
	Fail bool    `json:"fail"`
	Obs  recvObs `json:"obs"`
}

type recvDriver struct {
	insts   []string
	gb      *gatedBucket
	r       *receiver.Receiver
	cancel  context.CancelFunc
	ctx     context.Context
	nseq    map[string]int
	names   map[string]string // "i/seq" -> blob name
	seqOf   map[string]int    // blob name -> seq
	instOf  map[string]string
	merging *snapshot.Update
	t0      time.Time
}

func goodBlob(inst string, seq int) []byte {
	d := snapshot.NewDBISize(256)
	d.SetName("data")
	d.Append(snapshot.KV{Key: []byte("k"), Value: []byte(fmt.Sprintf("%s-%d", inst, seq)), TimestampNano: uint64(seq)})
	s := &snapshot.Snapshot{FormatVersion: 3, CompatVersion: 2}
	s.Meta.InstanceID = inst
	s.Meta.DatabaseName = "default"
	s.Databases = append(s.Databases, d)
	b, _, _ := snapshot.DumpData(s)
	return b
}

func newRecvDriver(insts []string, dl, dc int) *recvDriver {
	d := &recvDriver{insts: insts, nseq: map[string]int{}, names: map[string]string{}, seqOf: map[string]int{}, instOf: map[string]string{},
		t0: time.Date(2024, 5, 1, 0, 0, 0, 0, time.UTC)}
	d.gb = &gatedBucket{Interface: memory.New(), parked: map[string]chan bool{}}
	c := config.Config{StorageRetryInterval: time.Millisecond, StoragePollInterval: time.Hour,
		MemoryDownloadedSnapshots: dl, MemoryDecompressedSnapshots: dc}
	l := logrus.New()
	l.SetLevel(logrus.PanicLevel)
	d.ctx, d.cancel = context.WithCancel(context.Background())
	d.r = receiver.New(d.gb, c, "default", l, "own", events.New(), hooks.New())
	return d
}

func (d *recvDriver) publish(inst string, good bool) int {
	d.nseq[inst]++
	seq := d.nseq[inst]
	ni := snapshot.NameInfo{Kind: snapshot.KindSnapshot, Extension: snapshot.DefaultExtension, SyncerName: "default", InstanceID: inst,
		GenerationID: "GX", Timestamp: d.t0.Add(time.Duration(seq) * time.Second)}
	name := ni.BuildName()
	blob := goodBlob(inst, seq)
	if !good {
		switch seq % 3 {
		case 0:
			blob = []byte("this is not a gzip stream")
		case 1:
			blob = blob[:len(blob)/2] // a truncated transfer of a valid snapshot: the gzip stream ends unexpectedly
		default:
			blob = gz([]byte{0x1a, 0xff, 0xff, 0xff, 0xff, 0xff, 0xff, 0xff, 0xff, 0xff, 0x01}) // valid gzip, hostile protobuf
		}
	}
	_ = d.gb.Interface.Store(context.Background(), name, blob)
	d.names[fmt.Sprintf("%s/%d", inst, seq)] = name
	d.seqOf[name] = seq
	d.instOf[name] = inst
	return seq
}

func (d *recvDriver) observe() recvObs {
	o := recvObs{Pending: map[string]int{}, Parked: map[string]int{}}
	for _, i := range d.insts {
		o.Pending[i] = 0
		o.Parked[i] = 0
	}
	for inst, name := range d.r.VerifPending() {
		o.Pending[inst] = d.seqOf[name]
	}
	d.gb.mu.Lock()
	for name := range d.gb.parked {
		o.Parked[d.instOf[name]] = d.seqOf[name]
	}
	d.gb.mu.Unlock()
	o.DL, o.DC = d.r.VerifTokensHeld()
	return o
}

// settle waits until the observation is stable.
func (d *recvDriver) settle() (recvObs, bool) {
	var last string
	stable := 0
	var o recvObs
	need := 20 * settleMult()
	for i := 0; i < 4000*settleMult(); i++ {
		o = d.observe()
		b, _ := json.Marshal(o)
		if string(b) == last {
			stable++
			if stable >= need {
				return o, true
			}
		} else {
			stable = 0
			last = string(b)
		}
		time.Sleep(1500 * time.Microsecond)
	}
	return o, false
}

func (d *recvDriver) close() { d.cancel() }

// randomRun drives the receiver with n random external actions and returns the trace.
func randomRun(rng *rand.Rand, n, dl, dc int) ([]recvEvent, error) {
	insts := []string{"a", "b", "c"}
	d := newRecvDriver(insts, dl, dc)
	defer d.close()
	var trace []recvEvent
	for step := 0; step < n; step++ {
		var ev recvEvent
		obs := d.observe()
		var parked []string
		for _, i := range insts {
			if obs.Parked[i] != 0 {
				parked = append(parked, i)
			}
		}
		var present []string
		ls, _ := d.gb.Interface.List(context.Background(), "")
		for _, b := range ls {
			present = append(present, b.Name)
		}
		sort.Strings(present)
		switch k := rng.Intn(100); {
		case k < 22:
			i := insts[rng.Intn(len(insts))]
			good := rng.Intn(4) != 0
			ev = recvEvent{Ev: "publish", I: i, Good: good, Seq: d.publish(i, good)}
		case k < 30 && len(present) > 0:
			name := present[rng.Intn(len(present))]
			_ = d.gb.Interface.Delete(context.Background(), name)
			ev = recvEvent{Ev: "remove", I: d.instOf[name], Seq: d.seqOf[name]}
		case k < 55:
			fail := rng.Intn(6) == 0
			d.gb.mu.Lock()
			d.gb.failList = fail
			d.gb.mu.Unlock()
			err := d.r.RunOnce(d.ctx, false)
			d.gb.mu.Lock()
			d.gb.failList = false
			d.gb.mu.Unlock()
			if (err != nil) != fail {
				return trace, fmt.Errorf("RunOnce err=%v with injected failure %v", err, fail)
			}
			ev = recvEvent{Ev: "list", OK: !fail}
		case k < 80 && len(parked) > 0:
			i := parked[rng.Intn(len(parked))]
			fail := rng.Intn(5) == 0
			d.gb.mu.Lock()
			for name, ch := range d.gb.parked {
				if d.instOf[name] == i {
					ch <- fail
					delete(d.gb.parked, name)
				}
			}
			d.gb.mu.Unlock()
			ev = recvEvent{Ev: "release", I: i, Fail: fail}
		case k < 92 && d.merging == nil:
			inst, upd := d.r.Next()
			ev = recvEvent{Ev: "next", I: inst}
			if inst != "" {
				ev.Seq = d.seqOf[upd.NameInfo.FullName]
				u := upd
				d.merging = &u
			}
		case d.merging != nil:
			d.merging.Close()
			d.merging = nil
			ev = recvEvent{Ev: "close"}
		default:
			continue
		}
		o, ok := d.settle()
		if !ok {
			return trace, fmt.Errorf("receiver state does not settle")
		}
		ev.Obs = o
		trace = append(trace, ev)
	}
	return trace, nil
}

func cmdRecvTrace(args []string) error {
	out := args[0]
	ntraces, steps := 40, 60
	if len(args) > 1 && args[1] == "thorough" {
		ntraces, steps = 300, 80
	}
	dl, dc := 1, 2
	R := NewResult()
	traces := make([][]recvEvent, ntraces)
	var firstErr error
	var mu sync.Mutex
	seed := Seed()
	ParallelFor(ntraces, 8, func(i int) {
		rng := rand.New(rand.NewSource(seed*1000 + int64(i)))
		tr, err := randomRun(rng, steps, dl, dc)
		mu.Lock()
		traces[i] = tr
		if err != nil && firstErr == nil {
			firstErr = err
		}
		mu.Unlock()
		R.Add(len(tr), 1, 1)
	})
	if firstErr != nil {
		return firstErr
	}
	f, err := os.Create(out)
	if err != nil {
		return err
	}
	if err := json.NewEncoder(f).Encode(traces); err != nil {
		return err
	}
	f.Close()
	if len(traces) > 0 && len(traces[0]) > 3 {
		R.Sample(traces[0][:4])
	}
	return Emit(R)
}

// cmdRecvCorrupt: deterministic scenarios on the real receiver with free-running goroutines: corrupt blobs in every
// position among valid ones, more corrupt blobs than tokens, a vanished newest snapshot - the newest decodable
// snapshot of every instance must be delivered and no token may leak.
func cmdRecvCorrupt(args []string) error {
	R := NewResult()
	rng := Rng()
	sig := func(class string) map[string]interface{} {
		return map[string]interface{}{"prop": "C08", "class": class}
	}
	for sc := 0; sc < 24; sc++ {
		insts := []string{"a", "b", "c"}
		d := newRecvDriver(insts, 1+sc%2, 1+sc%3)
		// free-running: loads are released immediately
		stop := make(chan struct{})
		go func() {
			for {
				select {
				case <-stop:
					return
				default:
				}
				d.gb.mu.Lock()
				for name, ch := range d.gb.parked {
					ch <- false
					delete(d.gb.parked, name)
				}
				d.gb.mu.Unlock()
				time.Sleep(200 * time.Microsecond)
			}
		}()
		newestGood := map[string]int{}
		plan := map[string][]bool{}
		for _, i := range insts {
			n := 1 + rng.Intn(5)
			for s := 1; s <= n; s++ {
				good := rng.Intn(2) == 0
				if sc%4 == 0 && s > 1 {
					good = false // a run of corrupt blobs longer than the token pools
				}
				plan[i] = append(plan[i], good)
				seq := d.publish(i, good)
				if good {
					newestGood[i] = seq
				}
			}
		}
		delivered := map[string]int{}
		deadline := time.Now().Add(8 * time.Second)
		okAll := false
		for time.Now().Before(deadline) {
			_ = d.r.RunOnce(d.ctx, false)
			time.Sleep(3 * time.Millisecond)
			for {
				inst, upd := d.r.Next()
				if inst == "" {
					break
				}
				if upd.Snapshot == nil {
					R.Bad(plan, sig("delivered-undecodable"), "Next() handed over an update without snapshot")
				}
				delivered[inst] = d.seqOf[upd.NameInfo.FullName]
				upd.Close()
			}
			okAll = true
			for _, i := range insts {
				if delivered[i] < newestGood[i] {
					okAll = false
				}
			}
			if okAll {
				break
			}
		}
		R.Add(1, 1, 1)
		if !okAll {
			R.Bad(plan, sig("not-delivered"), "newest decodable snapshots %v, delivered %v after 8 s (limits %d/%d)", newestGood, delivered, 1+sc%2, 1+sc%3)
		}
		time.Sleep(5 * time.Millisecond)
		if dlh, dch := d.r.VerifTokensHeld(); dlh != 0 || dch != 0 {
			R.Bad(plan, sig("token-leak"), "tokens still held when idle: download %d decompress %d", dlh, dch)
		}
		close(stop)
		d.close()
	}
	R.Sample("24 scenarios: 3 instances x up to 5 snapshots each, good/corrupt at random positions, limits 1..2 / 1..3")
	return Emit(R)
}

// settleMult scales the settle windows (VERIF_SETTLE_MULT, default 1): used to re-record with a longer window
// before an observation-based mismatch is reported.
func settleMult() int {
	if m, err := strconv.Atoi(os.Getenv("VERIF_SETTLE_MULT")); err == nil && m > 0 {
		return m
	}
	return 1
}
