package hx

import (
	"bytes"
	"context"
	"fmt"
	"path/filepath"
	"sort"
	"time"

	"github.com/PowerDNS/lightningstream/lmdbenv"
	"github.com/PowerDNS/lightningstream/lmdbenv/header"
	"github.com/PowerDNS/lightningstream/lmdbenv/strategy"
	"github.com/PowerDNS/lightningstream/snapshot"
	"github.com/PowerDNS/lightningstream/syncer"
	"github.com/PowerDNS/lmdb-go/lmdb"
	"github.com/c2h5oh/datasize"
)

func init() { Commands["c02"] = cmdC02 }

type mctx struct {
	Fmt    int `json:"fmt"`
	Cutoff int `json:"cutoff"`
	DefTS  int `json:"defTS"`
}
type mergeRow struct {
	Old Ver    `json:"old"`
	In  In     `json:"in"`
	Ctx mctx   `json:"ctx"`
	Res Ver    `json:"res"`
	Tag string `json:"tag"`
}
type cleanRow struct {
	Old   Ver    `json:"old"`
	DefTS int    `json:"defTS"`
	Res   Ver    `json:"res"`
	Tag   string `json:"tag"`
}
type beatsRow struct {
	N     Ver  `json:"n"`
	O     Ver  `json:"o"`
	Beats bool `json:"beats"`
}

// KVOf builds the wire entry of an abstract incoming entry.
func (c Conc) KVOf(key []byte, in In) snapshot.KV {
	var fl uint32
	if in.Del {
		fl |= 1
	}
	if in.XF {
		fl |= c.XF &^ 1
	}
	return snapshot.KV{Key: key, Value: c.Val[in.Val], TimestampNano: c.TS[in.TS], Flags: fl}
}

func oneEntryDBI(kv snapshot.KV) *snapshot.DBI {
	d := snapshot.NewDBISize(len(kv.Key) + len(kv.Value) + 64)
	d.Append(kv)
	return d
}

// realMerge runs one entry through the real NativeIterator.Merge.
func realMerge(c Conc, old Ver, in In, x mctx, txnid uint64, padding bool) (res Ver, tag string, raw []byte, err error) {
	oldval := c.StoredBytes(old, txnid-1)
	it := &syncer.NativeIterator{
		DBIMsg:               oneEntryDBI(c.KVOf([]byte("k"), in)),
		DefaultTimestampNano: header.Timestamp(c.TS[x.DefTS]),
		TxnID:                header.TxnID(txnid),
		FormatVersion:        uint32(x.Fmt),
		HeaderPaddingBlock:   padding,
		DeletedCutoff:        header.Timestamp(c.TS[x.Cutoff]),
	}
	if _, err = it.Next(); err != nil {
		return
	}
	out, err := it.Merge(oldval)
	if err != nil {
		return
	}
	switch {
	case out == nil:
		tag = "dropped"
		res = Ver{TS: -1}
		return
	case len(oldval) > 0 && len(out) == len(oldval) && &out[0] == &oldval[0]:
		tag = "untouched"
	default:
		tag = "rewritten"
		if e := WellFormedLSWrite(out, txnid, padding); e != nil {
			err = fmt.Errorf("C14: %v", e)
			return
		}
	}
	res, err = c.AbsStored(out)
	raw = out
	return
}

func cmdC02(args []string) error {
	dir := args[0]
	tierName := "quick"
	if len(args) > 1 {
		tierName = args[1]
	}
	var rows []mergeRow
	var crows []cleanRow
	var brows []beatsRow
	if err := ReadJSON(filepath.Join(dir, "merge_rows.json"), &rows); err != nil {
		return err
	}
	if err := ReadJSON(filepath.Join(dir, "clean_rows.json"), &crows); err != nil {
		return err
	}
	if err := ReadJSON(filepath.Join(dir, "beats_rows.json"), &brows); err != nil {
		return err
	}
	R := NewResult()
	concs := Concs()
	if len(args) > 2 && args[2] == "loadonce-only" {
		// C18: the documented meaning of every supported format version, through the real LoadOnce
		if err := rowsThroughLoadOnce(R, rows, concs[0]); err != nil {
			return err
		}
		R.Distinct = R.Counters["merge_rows_through_LoadOnce"]
		return Emit(R)
	}

	// (T) every row of the Merge table on the real NativeIterator.Merge
	for _, row := range rows {
		for ci, c := range concs {
			padding := ci == 1
			res, tag, _, err := realMerge(c, row.Old, row.In, row.Ctx, 7, padding)
			R.Evaluations++
			R.Counters["merge_rows_run"]++
			sig := map[string]interface{}{"class": "merge-row", "old_del": row.Old.Del, "in_del": row.In.Del,
				"same_ts": row.Old.TS == row.In.TS || (row.In.TS == 0 && row.Ctx.DefTS == row.Old.TS), "in_ts0": row.In.TS == 0}
			if err != nil {
				R.Bad(row, sig, "conc=%s: real Merge failed: %v", c.Name, err)
				continue
			}
			if res != row.Res || tag != row.Tag {
				R.Bad(row, sig, "conc=%s: real Merge gives %v/%s, specification %v/%s (old=%v in=%+v ctx=%+v)",
					c.Name, res, tag, row.Res, row.Tag, row.Old, row.In, row.Ctx)
			}
		}
		R.Distinct++
	}
	R.Sample(map[string]interface{}{"merge_row": rows[len(rows)/2]})

	// (T) Clean rows
	for _, row := range crows {
		for _, c := range concs {
			oldval := c.StoredBytes(row.Old, 6)
			it := &syncer.NativeIterator{DBIMsg: snapshot.NewDBISize(16), DefaultTimestampNano: header.Timestamp(c.TS[row.DefTS]),
				TxnID: 7, FormatVersion: 3}
			out, err := it.Clean(oldval)
			R.Evaluations++
			R.Counters["clean_rows_run"]++
			if err != nil {
				R.Bad(row, nil, "conc=%s: real Clean failed: %v", c.Name, err)
				continue
			}
			tag := "rewritten"
			if len(out) == len(oldval) && &out[0] == &oldval[0] {
				tag = "untouched"
			} else if e := WellFormedLSWrite(out, 7, false); e != nil {
				R.Bad(row, nil, "conc=%s: Clean wrote a malformed value: %v", c.Name, e)
				continue
			}
			res, err := c.AbsStored(out)
			if err != nil || res != row.Res || tag != row.Tag {
				R.Bad(row, nil, "conc=%s: real Clean gives %v/%s (%v), specification %v/%s", c.Name, res, tag, err, row.Res, row.Tag)
			}
		}
		R.Distinct++
	}

	// (L) the rows of the remote-merge use (no default timestamp, no stale-marker cutoff) through the real LoadOnce
	// of a native-mode Syncer with the shipped defaults: what LoadOnce hands to the iterator (format version,
	// default timestamp, cutoff, transaction id) is part of the merge the user gets
	if err := rowsThroughLoadOnce(R, rows, concs[0]); err != nil {
		return err
	}
	// (S) the rows of the shadow-capture use (entry without timestamp, default timestamp = time of detection) through
	// the real mainToShadow of a shadow-mode Syncer
	if err := rowsThroughMainToShadow(R, rows, concs[0]); err != nil {
		return err
	}

	// (R) all pairs and triples, in all orders, through strategy.Update on a real LMDB
	beats := map[[2]Ver]bool{}
	for _, b := range brows {
		beats[[2]Ver{b.N, b.O}] = b.Beats
	}
	if tierName != "rows-only" {
		if err := ordersOnLMDB(R, rows, beats, concs, tierName); err != nil {
			return err
		}
	}
	return Emit(R)
}

func norm3(in In) Ver { // Norm(in, in.ts, 3) of the specification
	v := Ver{TS: in.TS, Del: in.Del, Val: in.Val}
	if v.Del {
		v.Val = 0
	}
	return v
}

func perms(n int) [][]int {
	if n == 2 {
		return [][]int{{0, 1}, {1, 0}}
	}
	return [][]int{{0, 1, 2}, {0, 2, 1}, {1, 0, 2}, {1, 2, 0}, {2, 0, 1}, {2, 1, 0}}
}

// ordersOnLMDB merges sets of 2 and 3 versions in every order into a stored
// version through strategy.Update and checks that (a) all orders leave the same
// logical content and (b) that content is the winner according to the
// specification's Beats table.
func ordersOnLMDB(R *Result, rows []mergeRow, beats map[[2]Ver]bool, concs []Conc, tierName string) error {
	// domains recovered from the table
	oldSet := map[Ver]bool{}
	inSet := map[In]bool{}
	for _, r := range rows {
		oldSet[r.Old] = true
		inSet[r.In] = true
	}
	var olds []Ver
	for v := range oldSet {
		olds = append(olds, v)
	}
	sort.Slice(olds, func(i, j int) bool { return fmt.Sprint(olds[i]) < fmt.Sprint(olds[j]) })
	var ins []In
	for v := range inSet {
		ins = append(ins, v)
	}
	sort.Slice(ins, func(i, j int) bool { return fmt.Sprint(ins[i]) < fmt.Sprint(ins[j]) })
	var ins3 []In // for triples: no unknown flag bits; quick tier: timestamps 0..2
	for _, i := range ins {
		if i.XF {
			continue
		}
		if (tierName == "quick" && i.TS > 2) || i.TS > 3 || i.Val > 2 {
			continue
		}
		ins3 = append(ins3, i)
	}

	type kcase struct {
		old  Ver
		vers []In
	}
	var cases []kcase
	for _, o := range olds {
		for _, a := range ins {
			for _, b := range ins {
				cases = append(cases, kcase{o, []In{a, b}})
			}
		}
	}
	nPairs := len(cases)
	for _, o := range olds {
		for _, a := range ins3 {
			for _, b := range ins3 {
				for _, c := range ins3 {
					cases = append(cases, kcase{o, []In{a, b, c}})
				}
			}
		}
	}
	R.Counters["pair_cases"] = nPairs
	R.Counters["triple_cases"] = len(cases) - nPairs

	winner := func(vs []Ver) Ver {
		w := Ver{TS: -1}
		for _, v := range vs {
			if v.Absent() {
				continue
			}
			if w.Absent() || beats[[2]Ver{v, w}] {
				w = v
			}
		}
		return w
	}

	for ci, c := range concs {
		if tierName == "quick" && ci == 2 {
			continue // multi-kilobyte values only in the thorough tier for the order test
		}
		ncases := len(cases)
		if ci == 2 {
			ncases = nPairs // multi-kilobyte values: pairs only
		}
		dir, err := makeTempDir()
		if err != nil {
			return err
		}
		env, err := lmdbenv.NewWithOptions(dir, lmdbenv.Options{Create: true, MapSize: 24 * datasize.GB})
		if err != nil {
			return err
		}
		type kref struct{ ci, pi int }
		var keys [][]byte
		var refs []kref
		for i, kc := range cases[:ncases] {
			for pi := range perms(len(kc.vers)) {
				k := make([]byte, 8)
				k[0] = byte(i >> 24)
				k[1] = byte(i >> 16)
				k[2] = byte(i >> 8)
				k[3] = byte(i)
				k[4] = byte(pi)
				keys = append(keys, k[:5])
				refs = append(refs, kref{i, pi})
			}
		}
		var dbi lmdb.DBI
		err = env.Update(func(txn *lmdb.Txn) error {
			var e error
			dbi, e = txn.OpenDBI("d", lmdb.Create)
			if e != nil {
				return e
			}
			for ki, k := range keys {
				o := cases[refs[ki].ci].old
				if o.Absent() {
					continue
				}
				if e := txn.Put(dbi, k, c.StoredBytes(o, 1), 0); e != nil {
					return e
				}
			}
			return nil
		})
		if err != nil {
			CloseEnv(env, dir)
			return err
		}
		for step := 0; step < 3; step++ {
			err = env.Update(func(txn *lmdb.Txn) error {
				msg := snapshot.NewDBISize(len(keys) * 40)
				n := 0
				for ki, k := range keys {
					kc := cases[refs[ki].ci]
					if step >= len(kc.vers) {
						continue
					}
					p := perms(len(kc.vers))[refs[ki].pi]
					msg.Append(c.KVOf(k, kc.vers[p[step]]))
					n++
				}
				it := &syncer.NativeIterator{DBIMsg: msg, TxnID: header.TxnID(txn.ID()), FormatVersion: 3}
				R.Counters["lmdb_merges"] += n
				return strategy.Update(txn, dbi, it)
			})
			if err != nil {
				CloseEnv(env, dir)
				return fmt.Errorf("strategy.Update step %d: %w", step, err)
			}
		}
		// read back
		final := make([]Ver, len(keys))
		err = env.View(func(txn *lmdb.Txn) error {
			for ki, k := range keys {
				b, e := txn.Get(dbi, k)
				if lmdb.IsNotFound(e) {
					final[ki] = Ver{TS: -1}
					continue
				}
				if e != nil {
					return e
				}
				v, e := c.AbsStored(b)
				if e != nil {
					return fmt.Errorf("key %x: %w", k, e)
				}
				final[ki] = v
			}
			return nil
		})
		if err != nil {
			CloseEnv(env, dir)
			return err
		}
		ki := 0
		for i, kc := range cases[:ncases] {
			np := len(perms(len(kc.vers)))
			vs := []Ver{kc.old}
			for _, in := range kc.vers {
				vs = append(vs, norm3(in))
			}
			want := winner(vs)
			first := final[ki]
			R.Evaluations += np
			sig := map[string]interface{}{"class": "order", "n": len(kc.vers)}
			for pi := 0; pi < np; pi++ {
				if final[ki+pi] != first {
					R.Bad(map[string]interface{}{"old": kc.old, "versions": kc.vers, "conc": c.Name}, sig,
						"order sensitivity on real LMDB: order %v leaves %v, order %v leaves %v (stored %v, merging %+v)",
						perms(len(kc.vers))[0], first, perms(len(kc.vers))[pi], final[ki+pi], kc.old, kc.vers)
					break
				}
			}
			if first != want {
				R.Bad(map[string]interface{}{"old": kc.old, "versions": kc.vers, "conc": c.Name}, sig,
					"real LMDB content %v is not the LWW winner %v of the specification (stored %v, merging %+v)", first, want, kc.old, kc.vers)
			}
			ki += np
			_ = i
		}
		R.Distinct += ncases
		// re-merging everything once more must not record a transaction (quiescence at the merge level)
		info0, _ := env.Info()
		err = env.Update(func(txn *lmdb.Txn) error {
			msg := snapshot.NewDBISize(len(keys) * 40)
			for ki, k := range keys {
				kc := cases[refs[ki].ci]
				msg.Append(c.KVOf(k, kc.vers[0]))
			}
			it := &syncer.NativeIterator{DBIMsg: msg, TxnID: header.TxnID(txn.ID()), FormatVersion: 3}
			return strategy.Update(txn, dbi, it)
		})
		info1, _ := env.Info()
		if err != nil || info1.LastTxnID != info0.LastTxnID {
			R.Bad("re-merge", nil, "re-merging already merged versions recorded a transaction (%d -> %d, err %v)", info0.LastTxnID, info1.LastTxnID, err)
		}
		CloseEnv(env, dir)
	}
	R.Sample(map[string]interface{}{"order_case": map[string]interface{}{"old": cases[nPairs+7].old, "versions": cases[nPairs+7].vers}})
	return nil
}

func rowsThroughLoadOnce(R *Result, rows []mergeRow, c Conc) error {
	w, err := NewWorld(true, nil, c, KeyConcs()[0], R)
	if err != nil {
		return err
	}
	defer w.Close()
	if err := w.AddInst(1, false); err != nil {
		return err
	}
	in := w.Insts[1]
	key := []byte("k")
	var last header.TxnID
	for _, row := range rows {
		if row.Ctx.DefTS != 0 || row.Ctx.Cutoff != 0 {
			continue
		}
		var oldval []byte
		err := in.Env.Update(func(txn *lmdb.Txn) error {
			dbi, err := txn.OpenDBI(w.DBIName, lmdb.Create)
			if err != nil {
				return err
			}
			oldval = c.StoredBytes(row.Old, uint64(txn.ID()))
			if oldval == nil {
				err = txn.Del(dbi, key, nil)
				if lmdb.IsNotFound(err) {
					err = nil
				}
				return err
			}
			return txn.Put(dbi, key, oldval, 0)
		})
		if err != nil {
			return err
		}
		d := oneEntryDBI(c.KVOf(key, row.In))
		d.SetName(w.DBIName)
		snap := &snapshot.Snapshot{FormatVersion: uint32(row.Ctx.Fmt), CompatVersion: 1}
		snap.Meta.DatabaseName = "default"
		snap.Meta.InstanceID = "remote"
		snap.Meta.TimestampNano = uint64(time.Now().UnixNano())
		snap.Databases = append(snap.Databases, d)
		ni := snapshot.NameInfo{Kind: snapshot.KindSnapshot, Extension: snapshot.DefaultExtension, SyncerName: "default",
			InstanceID: "remote", GenerationID: "GX", Timestamp: time.Now()}
		ni.FullName = ni.BuildName()
		txnID, _, err := in.S.LoadOnce(context.Background(), in.Env, "remote", snapshot.Update{Snapshot: snap, NameInfo: ni}, last)
		R.Evaluations++
		R.Counters["merge_rows_through_LoadOnce"]++
		sig := map[string]interface{}{"class": "merge-row-loadonce", "old_del": row.Old.Del, "in_del": row.In.Del, "in_ts0": row.In.TS == 0, "fmt": row.Ctx.Fmt}
		if err != nil {
			R.Bad(row, sig, "LoadOnce failed: %v", err)
			continue
		}
		last = txnID
		var out []byte
		_ = in.Env.View(func(txn *lmdb.Txn) error {
			dbi, err := txn.OpenDBI(w.DBIName, 0)
			if err != nil {
				return nil
			}
			v, err := txn.Get(dbi, key)
			if err == nil {
				out = append([]byte(nil), v...)
			}
			return nil
		})
		res, err := c.AbsStored(out)
		tag := "rewritten"
		switch {
		case out == nil:
			tag = "dropped"
		case bytes.Equal(out, oldval):
			tag = "untouched"
		default:
			if e := WellFormedLSWrite(out, uint64(txnID), false); e != nil {
				R.Bad(row, sig, "LoadOnce wrote a malformed value: %v", e)
				continue
			}
		}
		want := row.Tag
		if want == "dropped" && !row.Old.Absent() {
			want = "untouched"
		}
		if err != nil || res != row.Res || (tag != want && !(row.Tag == "dropped" && tag == "dropped")) {
			R.Bad(row, sig, "through LoadOnce: stored %v/%s (%v), specification %v/%s (old=%v in=%+v fmt=%d)", res, tag, err, row.Res, row.Tag, row.Old, row.In, row.Ctx.Fmt)
		}
	}
	return nil
}

func rowsThroughMainToShadow(R *Result, rows []mergeRow, c Conc) error {
	w, err := NewWorld(false, nil, c, KeyConcs()[0], R)
	if err != nil {
		return err
	}
	defer w.Close()
	if err := w.AddInst(1, false); err != nil {
		return err
	}
	in := w.Insts[1]
	key := []byte("k")
	shadowName := syncer.SyncDBIShadowPrefix + w.DBIName
	for _, row := range rows {
		if row.In.TS != 0 || row.Ctx.DefTS == 0 || row.Ctx.Fmt != 3 || row.Ctx.Cutoff != 0 || row.In.Del || row.In.XF {
			continue
		}
		var oldval, out []byte
		var txnID uint64
		err := in.Env.Update(func(txn *lmdb.Txn) error {
			txnID = uint64(txn.ID())
			main, err := txn.OpenDBI(w.DBIName, lmdb.Create)
			if err != nil {
				return err
			}
			shadow, err := txn.OpenDBI(shadowName, lmdb.Create)
			if err != nil {
				return err
			}
			if err := txn.Put(main, key, c.Val[row.In.Val], 0); err != nil {
				return err
			}
			oldval = c.StoredBytes(row.Old, txnID-1)
			if oldval == nil {
				if e := txn.Del(shadow, key, nil); e != nil && !lmdb.IsNotFound(e) {
					return e
				}
			} else if err := txn.Put(shadow, key, oldval, 0); err != nil {
				return err
			}
			if err := in.S.VerifMainToShadow(context.Background(), txn, header.Timestamp(c.TS[row.Ctx.DefTS])); err != nil {
				return fmt.Errorf("mainToShadow: %w", err)
			}
			v, err := txn.Get(shadow, key)
			if err == nil {
				out = append([]byte(nil), v...)
			}
			return nil
		})
		R.Evaluations++
		R.Counters["merge_rows_through_mainToShadow"]++
		sig := map[string]interface{}{"class": "merge-row-maintoshadow", "old_del": row.Old.Del, "empty_value": len(c.Val[row.In.Val]) == 0}
		if err != nil {
			R.Bad(row, sig, "capture failed: %v", err)
			continue
		}
		res, aerr := c.AbsStored(out)
		tag := "rewritten"
		switch {
		case out == nil:
			tag = "dropped"
		case bytes.Equal(out, oldval):
			tag = "untouched"
		default:
			if e := WellFormedLSWrite(out, txnID, false); e != nil {
				R.Bad(row, sig, "mainToShadow wrote a malformed value: %v", e)
				continue
			}
		}
		if aerr != nil || res != row.Res || tag != row.Tag {
			R.Bad(row, sig, "through mainToShadow: shadow entry %v/%s (%v), specification %v/%s (old=%v application value class %d, detection time class %d)",
				res, tag, aerr, row.Res, row.Tag, row.Old, row.In.Val, row.Ctx.DefTS)
		}
	}
	return nil
}
