package hx

import (
	"encoding/binary"
	"encoding/json"
	"fmt"
	"io"
	"math/rand"
	"os"
	"runtime"
	"strconv"
	"sync"
	"syscall"
	"time"

	"github.com/PowerDNS/lightningstream/lmdbenv"
	"github.com/PowerDNS/lmdb-go/lmdb"
	"github.com/sirupsen/logrus"
)

// Commands is the table of sub-commands.
var Commands = map[string]func(args []string) error{}

func init() {
	logrus.SetOutput(io.Discard)
	logrus.SetLevel(logrus.PanicLevel)
}

// Seed returns VERIF_SEED (default 1).
func Seed() int64 {
	s, err := strconv.ParseInt(os.Getenv("VERIF_SEED"), 10, 64)
	if err != nil {
		return 1
	}
	return s
}

func Rng() *rand.Rand { return rand.New(rand.NewSource(Seed())) }

// ReadJSON reads a JSON document from a file ("-" = stdin).
func ReadJSON(path string, v interface{}) error {
	var r io.Reader = os.Stdin
	if path != "-" && path != "" {
		f, err := os.Open(path)
		if err != nil {
			return err
		}
		defer f.Close()
		r = f
	}
	dec := json.NewDecoder(r)
	return dec.Decode(v)
}

// Emit writes the result document.
func Emit(v interface{}) error {
	enc := json.NewEncoder(os.Stdout)
	return enc.Encode(v)
}

// Mismatch is one disagreement between implementation and specification / monitor.
type Mismatch struct {
	Case   interface{} `json:"case"`
	What   string      `json:"what"`
	Sig    interface{} `json:"sig,omitempty"`
	Expect interface{} `json:"expect,omitempty"`
	Got    interface{} `json:"got,omitempty"`
}

// Result is the common result document.
type Result struct {
	mu          sync.Mutex
	Evaluations int                    `json:"evaluations"`
	Distinct    int                    `json:"distinct"`
	Traces      int                    `json:"traces"`
	Mismatches  []Mismatch             `json:"mismatches"`
	Samples     []interface{}          `json:"samples"`
	Counters    map[string]int         `json:"counters"`
	SigCounts   map[string]int         `json:"sig_counts,omitempty"`
	Extra       map[string]interface{} `json:"extra,omitempty"`
}

func NewResult() *Result {
	return &Result{Counters: map[string]int{}, Extra: map[string]interface{}{}, Mismatches: []Mismatch{}, Samples: []interface{}{}}
}

func (r *Result) Bad(c interface{}, sig interface{}, format string, a ...interface{}) {
	r.mu.Lock()
	defer r.mu.Unlock()
	sk, _ := json.Marshal(sig)
	if r.SigCounts == nil {
		r.SigCounts = map[string]int{}
	}
	r.SigCounts[string(sk)]++
	// keep the first few cases of every signature
	if r.SigCounts[string(sk)] <= 4 && len(r.Mismatches) < 400 {
		r.Mismatches = append(r.Mismatches, Mismatch{Case: c, What: fmt.Sprintf(format, a...), Sig: sig})
	}
	r.Counters["mismatches"]++
}

// Add adds to the counters under the lock.
func (r *Result) Add(evals, distinct, traces int) {
	r.mu.Lock()
	r.Evaluations += evals
	r.Distinct += distinct
	r.Traces += traces
	r.mu.Unlock()
}

func (r *Result) Count(name string, n int) {
	r.mu.Lock()
	r.Counters[name] += n
	r.mu.Unlock()
}

func (r *Result) Sample(s interface{}) {
	r.mu.Lock()
	defer r.mu.Unlock()
	if len(r.Samples) < 5 {
		r.Samples = append(r.Samples, s)
	}
}

// TempEnv creates an LMDB environment in a fresh temporary directory.
func TempEnv() (*lmdb.Env, string, error) {
	base := os.Getenv("VERIF_TMP")
	dir, err := os.MkdirTemp(base, "verif-lmdb-")
	if err != nil {
		return nil, "", err
	}
	env, err := lmdbenv.New(dir, lmdb.Create)
	if err != nil {
		os.RemoveAll(dir)
		return nil, "", err
	}
	return env, dir, nil
}

func CloseEnv(env *lmdb.Env, dir string) {
	if env != nil {
		env.Close()
	}
	if dir != "" {
		os.RemoveAll(dir)
	}
}

func U32(v uint32) []byte { b := make([]byte, 4); binary.LittleEndian.PutUint32(b, v); return b }
func U64(v uint64) []byte { b := make([]byte, 8); binary.LittleEndian.PutUint64(b, v); return b }

// ParallelFor runs f(0..n-1) on up to workers goroutines.
func ParallelFor(n, workers int, f func(i int)) {
	if w, err := strconv.Atoi(os.Getenv("VERIF_WORKERS")); err == nil && w > 0 {
		workers = w
	}
	ch := make(chan int)
	var wg sync.WaitGroup
	for w := 0; w < workers; w++ {
		wg.Add(1)
		go func() {
			defer wg.Done()
			for i := range ch {
				stop := watchdog(i)
				f(i)
				stop()
			}
		}()
	}
	for i := 0; i < n; i++ {
		ch <- i
	}
	close(ch)
	wg.Wait()
}

// watchdog: a work item that does not finish within VERIF_ITEM_TIMEOUT seconds (default 150) is a stuck driver -
// all goroutine stacks go to stderr and the process exits with status 4 (the check reports "inconclusive", never
// a violation).
func watchdog(i int) (stop func()) {
	secs := 150
	if v, err := strconv.Atoi(os.Getenv("VERIF_ITEM_TIMEOUT")); err == nil && v > 0 {
		secs = v
	}
	t := time.AfterFunc(time.Duration(secs)*time.Second, func() {
		buf := make([]byte, 4<<20)
		n := runtime.Stack(buf, true)
		fmt.Fprintf(os.Stderr, "WATCHDOG: work item %d still running after %d s; goroutines:\n%s\n", i, secs, buf[:n])
		if os.Getenv("VERIF_WATCHDOG_QUIT") != "" {
			syscall.Kill(os.Getpid(), syscall.SIGQUIT) // full runtime dump (with GOTRACEBACK=system)
			time.Sleep(5 * time.Second)
		}
		os.Exit(4)
	})
	return func() { t.Stop() }
}
