package hx

import (
	"context"
	"fmt"
	"strings"
	"time"

	"github.com/PowerDNS/lightningstream/snapshot"
	"github.com/PowerDNS/lightningstream/syncer"
	"github.com/PowerDNS/simpleblob/backends/memory"
)

func init() { Commands["onlyonce"] = cmdOnlyOnce }

// cmdOnlyOnce: run-once mode ends by itself after merging the newest snapshot of every instance present at
// start-up - not earlier (one instance's download is held back), and also when an instance only has an
// undecodable snapshot or its snapshot vanishes.
func cmdOnlyOnce(args []string) error {
	R := NewResult()
	sig := func(class string) map[string]interface{} {
		return map[string]interface{}{"prop": "C16", "class": class}
	}
	for sc := 0; sc < 16; sc++ {
		native := sc%2 == 0
		w, err := NewWorld(native, nil, Concs()[0], KeyConcs()[0], R)
		if err != nil {
			return err
		}
		gb := &gatedBucket{Interface: memory.New(), parked: map[string]chan bool{}}
		w.Bucket = gb
		if err := w.AddInst(1, false); err != nil {
			return err
		}
		in := w.Insts[1]
		d := &recvDriver{nseq: map[string]int{}, names: map[string]string{}, seqOf: map[string]int{}, instOf: map[string]string{},
			t0: time.Now().Add(-time.Hour), gb: gb}
		// instances a and b publish good snapshots (b two of them), c depends on the scenario
		mk := func(inst string, seq int, key string) {
			ni := snapshot.NameInfo{Kind: snapshot.KindSnapshot, Extension: snapshot.DefaultExtension, SyncerName: "default", InstanceID: inst,
				GenerationID: "GX", Timestamp: d.t0.Add(time.Duration(seq) * time.Second)}
			dd := snapshot.NewDBISize(256)
			dd.SetName("data")
			dd.Append(snapshot.KV{Key: []byte(key), Value: []byte("v"), TimestampNano: uint64(1000 + seq)})
			s := &snapshot.Snapshot{FormatVersion: 3, CompatVersion: 2}
			s.Meta.InstanceID = inst
			s.Meta.DatabaseName = "default"
			s.Databases = append(s.Databases, dd)
			b, _, _ := snapshot.DumpData(s)
			_ = gb.Interface.Store(context.Background(), ni.BuildName(), b)
			d.instOf[ni.BuildName()] = inst
		}
		want := []string{}
		if sc/2 != 3 {
			mk("a", 1, "ka")
			mk("b", 1, "kb-old")
			mk("b", 2, "kb")
			want = []string{"ka", "kb"}
		}
		refused := sc/2 >= 4 // an instance whose snapshot LoadOnce refuses (compatibility version of the future): Sync ends with an error
		if refused {
			ni := snapshot.NameInfo{Kind: snapshot.KindSnapshot, Extension: snapshot.DefaultExtension, SyncerName: "default", InstanceID: "z", GenerationID: "GX", Timestamp: d.t0.Add(time.Second)}
			dd := snapshot.NewDBISize(64)
			dd.SetName("data")
			dd.Append(snapshot.KV{Key: []byte("kz"), Value: []byte("v"), TimestampNano: 1001})
			sz := &snapshot.Snapshot{FormatVersion: 3, CompatVersion: 99}
			sz.Meta.InstanceID = "z"
			sz.Meta.DatabaseName = "default"
			sz.Databases = append(sz.Databases, dd)
			b, _, _ := snapshot.DumpData(sz)
			_ = gb.Interface.Store(context.Background(), ni.BuildName(), b)
			d.instOf[ni.BuildName()] = "z"
		}
		switch sc / 2 {
		case 3: // the bucket holds nothing but one undecodable snapshot of another instance, the own LMDB is empty
			ni := snapshot.NameInfo{Kind: snapshot.KindSnapshot, Extension: snapshot.DefaultExtension, SyncerName: "default", InstanceID: "c", GenerationID: "GX", Timestamp: d.t0.Add(time.Second)}
			_ = gb.Interface.Store(context.Background(), ni.BuildName(), []byte("garbage"))
			d.instOf[ni.BuildName()] = "c"
		case 1: // c has only an undecodable snapshot
			ni := snapshot.NameInfo{Kind: snapshot.KindSnapshot, Extension: snapshot.DefaultExtension, SyncerName: "default", InstanceID: "c", GenerationID: "GX", Timestamp: d.t0.Add(time.Second)}
			_ = gb.Interface.Store(context.Background(), ni.BuildName(), []byte("garbage"))
			d.instOf[ni.BuildName()] = "c"
		case 2: // c has a good one
			mk("c", 1, "kc")
			want = append(want, "kc")
		}
		c := w.config(in.Name)
		c.OnlyOnce = true
		c.StoragePollInterval = 3 * time.Millisecond
		c.LMDBPollInterval = time.Millisecond
		c.StorageRetryInterval = time.Millisecond
		c.MemoryDecompressedSnapshots = 1
		c.MemoryDownloadedSnapshots = 1
		s, err := syncer.New("default", in.Env, gb, c, c.LMDBs["default"], syncer.Options{})
		if err != nil {
			return err
		}
		// goroutines left over from earlier scenarios (cancelled fleets: known finding F8) are not this scenario's
		before := map[string]bool{}
		for _, g := range goroutinesIn("lightningstream/syncer/receiver", "lightningstream/syncer/cleaner", "lightningstream/syncer/sweeper") {
			before[strings.SplitN(g, " [", 2)[0]] = true
		}
		ctx, cancel := context.WithTimeout(context.Background(), 20*time.Second)
		done := make(chan error, 1)
		go func() { done <- s.Sync(ctx) }()
		// release every load except those of instance b for a while
		hold := time.Now().Add(150 * time.Millisecond)
		early := false
		var syncErr error
		finished := false
		for !finished {
			select {
			case syncErr = <-done:
				finished = true
				if time.Now().Before(hold) && sc/2 != 3 {
					early = true
				}
			default:
			}
			gb.mu.Lock()
			for name, ch := range gb.parked {
				if d.instOf[name] == "b" && time.Now().Before(hold) {
					continue
				}
				ch <- false
				delete(gb.parked, name)
			}
			gb.mu.Unlock()
			time.Sleep(500 * time.Microsecond)
			if ctx.Err() != nil && !finished {
				syncErr = <-done
				finished = true
			}
		}
		desc := map[string]interface{}{"scenario": sc, "native": native}
		if refused {
			// Sync returned with the refusal; what it started must not stay behind either (a downloader waiting for
			// the decompress token the refused update held)
			var left []string
			for i := 0; i < 60; i++ {
				left = nil
				for _, g := range goroutinesIn("lightningstream/syncer/receiver", "lightningstream/utils/climit") {
					if !before[strings.SplitN(g, " [", 2)[0]] {
						left = append(left, g)
					}
				}
				if len(left) == 0 {
					break
				}
				time.Sleep(25 * time.Millisecond)
			}
			if syncErr == nil {
				R.Bad(desc, sig("refused-accepted"), "Sync ended without error although a snapshot of a future compatibility version was in the bucket")
			} else if len(left) > 0 {
				R.Bad(desc, map[string]interface{}{"prop": "C17", "class": "goroutine-left-after-error-return"},
					"Sync returned with an error (%v) and %d goroutine(s) it started are still there: %.600v", syncErr, len(left), left)
			}
			cancel()
			R.Add(1, 1, 1)
			w.Close()
			continue
		}
		if syncErr == nil {
			// C17: Sync returned by itself while the caller's context is still open - nothing it started may stay behind
			var left []string
			for i := 0; i < 40; i++ {
				left = nil
				for _, g := range goroutinesIn("lightningstream/syncer/receiver", "lightningstream/syncer/cleaner", "lightningstream/syncer/sweeper") {
					if !before[strings.SplitN(g, " [", 2)[0]] {
						left = append(left, g)
					}
				}
				if len(left) == 0 {
					break
				}
				time.Sleep(25 * time.Millisecond)
			}
			if len(left) > 0 {
				R.Bad(desc, map[string]interface{}{"prop": "C17", "class": "goroutine-left-after-return"},
					"Sync returned (run-once) with the caller's context still open, and %d goroutine(s) it started are still there: %.600v", len(left), left)
			}
		}
		cancel()
		R.Add(1, 1, 1)
		if early {
			R.Bad(desc, sig("exit-too-early"), "run-once mode ended while the newest snapshot of instance b was still being downloaded")
		}
		if syncErr != nil {
			R.Bad(desc, sig("no-exit"), "run-once mode did not end by itself: %v", syncErr)
		}
		// content
		dbiName := "data"
		raw, _, _ := w.readRaw(1, dbiName)
		have := map[string]bool{}
		for _, e := range raw {
			have[string(e.Key)] = true
		}
		for _, k := range want {
			if !have[k] {
				R.Bad(desc, sig("not-merged"), "run-once mode ended without having merged key %q (LMDB holds %v)", k, fmt.Sprint(have))
			}
		}
		w.Close()
	}
	R.Sample("run-once scenarios: 2-3 instances present at start-up, one download held back for 150 ms, an instance with only an undecodable snapshot")
	return Emit(R)
}
