package hx

import (
	"bytes"
	"context"
	"fmt"
	"io"
	"path/filepath"
	"sort"
	"time"

	"github.com/PowerDNS/lightningstream/snapshot"
	"github.com/PowerDNS/lightningstream/syncer"
	"github.com/PowerDNS/lmdb-go/lmdb"
	"github.com/PowerDNS/simpleblob/backends/memory"
)

func init() { Commands["c20"] = cmdC20 }

type rle [][]int

func (r rle) bytes() []byte {
	var b []byte
	for _, p := range r {
		b = append(b, bytes.Repeat([]byte{byte(p[0])}, p[1])...)
	}
	return b
}

type dsOneRow struct {
	Key rle  `json:"key"`
	Val rle  `json:"val"`
	OK  bool `json:"ok"`
	Enc rle  `json:"enc"`
}
type dsListRow struct {
	K1 rle  `json:"k1"`
	V1 rle  `json:"v1"`
	K2 rle  `json:"k2"`
	V2 rle  `json:"v2"`
	OK bool `json:"ok"`
}

func dbiOf(kvs ...snapshot.KV) *snapshot.DBI {
	d := snapshot.NewDBISize(4096)
	d.SetName("data")
	for _, kv := range kvs {
		d.Append(kv)
	}
	return d
}

func cmdC20(args []string) error {
	var ones []dsOneRow
	var lists []dsListRow
	if err := ReadJSON(filepath.Join(args[0], "dupsort_one_rows.json"), &ones); err != nil {
		return err
	}
	if err := ReadJSON(filepath.Join(args[0], "dupsort_list_rows.json"), &lists); err != nil {
		return err
	}
	tierName := "quick"
	if len(args) > 1 {
		tierName = args[1]
	}
	R := NewResult()
	sigOne := map[string]interface{}{"prop": "C20", "class": "encode-one"}
	for _, row := range ones {
		k, v := row.Key.bytes(), row.Val.bytes()
		for _, fl := range []uint32{0, 1} {
			enc, err := syncer.VerifDupSortHackEncodeOne(snapshot.KV{Key: k, Value: v, Flags: fl, TimestampNano: 5})
			R.Evaluations++
			if (err == nil) != row.OK {
				R.Bad(row, sigOne, "EncodeOne(key %d bytes, value %d bytes): err=%v, specification ok=%v", len(k), len(v), err, row.OK)
				continue
			}
			if !row.OK {
				continue
			}
			if !bytes.Equal(enc.Key, row.Enc.bytes()) || !bytes.Equal(enc.Value, v) || enc.Flags != fl {
				R.Bad(row, sigOne, "EncodeOne gives key %x.., specification %x..", trunc(enc.Key), trunc(row.Enc.bytes()))
				continue
			}
			if len(enc.Key) > 511 {
				R.Bad(row, sigOne, "encoded key of %d bytes exceeds the LMDB limit", len(enc.Key))
			}
			dec, err := syncer.VerifDupSortHackDecodeOne(enc)
			if err != nil || !bytes.Equal(dec.Key, k) || !bytes.Equal(dec.Value, v) || dec.Flags != fl {
				R.Bad(row, sigOne, "DecodeOne(EncodeOne(pair)) does not return the pair (err=%v)", err)
			}
		}
		R.Distinct++
	}
	sigList := map[string]interface{}{"prop": "C20", "class": "encode-list"}
	for _, row := range lists {
		a := snapshot.KV{Key: row.K1.bytes(), Value: row.V1.bytes()}
		b := snapshot.KV{Key: row.K2.bytes(), Value: row.V2.bytes()}
		if len(a.Key) == 0 || len(b.Key) == 0 {
			continue // LMDB has no empty keys (and DBI.Append drops an entirely empty entry); EncodeOne's refusal is checked above
		}
		encd, err := syncer.VerifDupSortHackEncode(dbiOf(a, b))
		R.Evaluations++
		if (err == nil) != row.OK {
			R.Bad(row, sigList, "Encode of two pairs (keys %d/%d bytes, values %d/%d bytes): err=%v, specification ok=%v", len(a.Key), len(b.Key), len(a.Value), len(b.Value), err, row.OK)
			continue
		}
		R.Distinct++
		if !row.OK {
			continue
		}
		if encd.Transform() != snapshot.TransformDupSortHackV1 {
			R.Bad(row, sigList, "encoded DBI does not state the transform (%q)", encd.Transform())
		}
		kvs, _ := encd.AsInefficientKVList()
		if len(kvs) != 2 || bytes.Compare(kvs[0].Key, kvs[1].Key) >= 0 {
			R.Bad(row, sigList, "encoded keys are not strictly increasing")
			continue
		}
		decd, err := syncer.VerifDupSortHackDecode(encd)
		if err != nil {
			R.Bad(row, sigList, "Decode(Encode(dbi)) fails: %v", err)
			continue
		}
		back, _ := decd.AsInefficientKVList()
		if len(back) != 2 || !bytes.Equal(back[0].Key, a.Key) || !bytes.Equal(back[0].Value, a.Value) || !bytes.Equal(back[1].Key, b.Key) || !bytes.Equal(back[1].Value, b.Value) {
			R.Bad(row, sigList, "Decode(Encode(dbi)) does not return the original pairs")
		}
	}
	if len(lists) > 0 {
		R.Sample(lists[len(lists)/2])
	}
	// full mirror cycles on a real MDB_DUPSORT DBI
	step := 37
	if tierName == "thorough" {
		step = 5
	}
	n := 0
	for i := 0; i < len(lists); i += step {
		if err := dupsortCycle(R, lists[i]); err != nil {
			return err
		}
		n++
	}
	if err := dupsortWithoutTransform(R); err != nil {
		return err
	}
	R.Counters["mirror_cycles"] = n
	R.Traces = n
	R.Counters["one_rows"] = len(ones)
	R.Counters["list_rows"] = len(lists)
	return Emit(R)
}

func trunc(b []byte) []byte {
	if len(b) > 24 {
		return b[:24]
	}
	return b
}

type pairSet map[string]bool

func readPairs(env *lmdb.Env, name string) (pairSet, bool, error) {
	out := pairSet{}
	exists := true
	err := env.View(func(txn *lmdb.Txn) error {
		dbi, err := txn.OpenDBI(name, 0)
		if lmdb.IsNotFound(err) {
			exists = false
			return nil
		}
		if err != nil {
			return err
		}
		cur, err := txn.OpenCursor(dbi)
		if err != nil {
			return err
		}
		defer cur.Close()
		for {
			k, v, e := cur.Get(nil, nil, lmdb.Next)
			if lmdb.IsNotFound(e) {
				return nil
			}
			if e != nil {
				return e
			}
			out[fmt.Sprintf("%x=%x", k, v)] = true
		}
	})
	return out, exists, err
}

func (p pairSet) list() []string {
	var l []string
	for k := range p {
		l = append(l, k)
	}
	sort.Strings(l)
	return l
}

// dupsortCycle: instance 1 holds the two pairs in a real MDB_DUPSORT DBI; SendOnce; a fresh instance 2 and a
// native instance 3 load the snapshot; a remote change (delete of the first pair) travels the same way.
func dupsortCycle(R *Result, row dsListRow) error {
	sig := map[string]interface{}{"prop": "C20", "class": "mirror-cycle", "expect_ok": row.OK,
		"empty_value": len(row.V1.bytes()) == 0 || len(row.V2.bytes()) == 0}
	w, err := NewWorld(false, nil, Concs()[0], KeyConcs()[0], R)
	if err != nil {
		return err
	}
	defer w.Close()
	w.Bucket = memory.New()
	for _, i := range []int{1, 2} {
		if err := w.AddInst(i, false); err != nil {
			return err
		}
		in := w.Insts[i]
		c := w.config(in.Name)
		lc := c.LMDBs["default"]
		lc.DupSortHack = true
		c.LMDBs["default"] = lc
		s, err := syncer.New("default", in.Env, w.Bucket, c, lc, syncer.Options{})
		if err != nil {
			return err
		}
		in.S = s
	}
	a, b := [2][]byte{row.K1.bytes(), row.V1.bytes()}, [2][]byte{row.K2.bytes(), row.V2.bytes()}
	if len(a[0]) == 0 || len(b[0]) == 0 || len(a[0]) > 511 || len(b[0]) > 511 || len(a[1]) > 511 || len(b[1]) > 511 {
		return nil // LMDB itself does not accept such keys / duplicate data
	}
	put := func(i int, p [2][]byte, del bool) error {
		return w.Insts[i].Env.Update(func(txn *lmdb.Txn) error {
			dbi, err := txn.OpenDBI("data", lmdb.Create|lmdb.DupSort)
			if err != nil {
				return err
			}
			if del {
				return txn.Del(dbi, p[0], p[1])
			}
			return txn.Put(dbi, p[0], p[1], 0)
		})
	}
	if err := put(1, a, false); err != nil {
		return nil
	}
	if err := put(1, b, false); err != nil {
		return nil
	}
	orig, _, _ := readPairs(w.Insts[1].Env, "data")
	if len(orig) != 2 {
		return nil // LMDB does not represent this content (an empty duplicate next to another one)
	}
	R.Add(1, 0, 0)
	name, err := w.Upload(1)
	if !row.OK {
		after, _, _ := readPairs(w.Insts[1].Env, "data")
		if err == nil {
			R.Bad(row, sig, "SendOnce accepted duplicate-key data the specification refuses (not unique / order not preserved / key too long)")
		} else if fmt.Sprint(after.list()) != fmt.Sprint(orig.list()) {
			R.Bad(row, sig, "refused data was altered in the application DBI")
		}
		return nil
	}
	if err != nil {
		R.Bad(row, sig, "SendOnce refuses data the specification accepts: %v", err)
		return nil
	}
	after, _, _ := readPairs(w.Insts[1].Env, "data")
	if fmt.Sprint(after.list()) != fmt.Sprint(orig.list()) {
		R.Bad(row, sig, "the mirror cycle changed the application's pairs: %v -> %v", orig.list(), after.list())
	}
	upd, err := w.LoadBlob(name)
	if err != nil {
		return err
	}
	for _, d := range upd.Snapshot.Databases {
		if d.Name() == "data" && (d.Transform() != snapshot.TransformDupSortHackV1 || d.Flags()&uint64(lmdb.DupSort) == 0) {
			R.Bad(row, sig, "snapshot does not state the transform/flags: transform %q flags %#x", d.Transform(), d.Flags())
		}
		d.ResetCursor()
		for {
			if _, e := d.Next(); e == io.EOF {
				break
			} else if e != nil {
				break
			}
		}
	}
	// a fresh shadow-mode receiver ends up with the same pairs
	if _, err := w.Merge(2, 1, 1); err != nil {
		R.Bad(row, sig, "LoadOnce on a fresh instance fails: %v", err)
		return nil
	}
	got, _, _ := readPairs(w.Insts[2].Env, "data")
	if fmt.Sprint(got.list()) != fmt.Sprint(orig.list()) {
		R.Bad(row, sig, "fresh receiver holds %v, sender %v", got.list(), orig.list())
	}
	// the sender merging its own snapshot back keeps its pairs
	if _, err := w.Merge(1, 1, 1); err != nil {
		R.Bad(row, sig, "LoadOnce of the own snapshot fails: %v", err)
		return nil
	}
	after, _, _ = readPairs(w.Insts[1].Env, "data")
	if fmt.Sprint(after.list()) != fmt.Sprint(orig.list()) {
		R.Bad(row, sig, "re-merging the own snapshot changed the pairs: %v -> %v", orig.list(), after.list())
	}
	// a remote change: the receiver deletes the first pair, the sender merges that
	if err := put(2, a, true); err != nil {
		if lmdb.IsNotFound(err) {
			R.Bad(row, sig, "the receiver does not hold the sender's first pair (%x..=%x..)", trunc(a[0]), trunc(a[1]))
			return nil
		}
		return err
	}
	if _, err := w.Upload(2); err != nil {
		R.Bad(row, sig, "SendOnce on the receiver fails: %v", err)
		return nil
	}
	if _, err := w.Merge(1, 2, 1); err != nil {
		R.Bad(row, sig, "LoadOnce of the remote change fails: %v", err)
		return nil
	}
	after, _, _ = readPairs(w.Insts[1].Env, "data")
	want := pairSet{fmt.Sprintf("%x=%x", b[0], b[1]): true}
	if fmt.Sprint(after.list()) != fmt.Sprint(want.list()) {
		R.Bad(row, sig, "after merging the remote deletion the sender holds %v, want %v", after.list(), want.list())
	}
	// a native-schema receiver refuses the transformed snapshot and stays untouched
	wn, err := NewWorld(true, []int{3}, Concs()[0], KeyConcs()[0], R)
	if err != nil {
		return err
	}
	defer wn.Close()
	upd2, _ := w.LoadBlob(name)
	_, _, lerr := wn.Insts[3].S.LoadOnce(context.Background(), wn.Insts[3].Env, "i1", upd2, 0)
	if lerr == nil || wn.lastTxn(3) != 0 {
		R.Bad(row, sig, "a native-schema receiver accepted a snapshot with the dupsort transform (err=%v, LastTxnID=%d)", lerr, wn.lastTxn(3))
	}
	return nil
}

func init() { Commands["converge-kinds"] = cmdConvergeKinds }

// cmdConvergeKinds (C01, non-native mode): "identical application DBIs" for every kind of application DBI - plain,
// integer keys, duplicate keys (with the dupsort hack) - on a receiver that has to create the DBI, after a first
// snapshot and after a change made on the receiver has travelled back.
func cmdConvergeKinds(args []string) error {
	R := NewResult()
	prop := "C01"
	if len(args) > 0 {
		prop = args[0]
	}
	type kind struct {
		name  string
		flags uint
		pairs [][2][]byte
	}
	kinds := []kind{
		{"plain", 0, [][2][]byte{{[]byte("a"), []byte("1")}, {[]byte("b"), []byte("2")}, {[]byte("c"), []byte("3")}}},
		{"integerkey", lmdb.IntegerKey, [][2][]byte{{U64(1), []byte("one")}, {U64(256), []byte("two")}, {U64(1 << 40), []byte("three")}}},
		{"dupsort", lmdb.DupSort, [][2][]byte{{[]byte("alpha"), []byte("one")}, {[]byte("alpha"), []byte("two")}, {[]byte("beta"), []byte("x")}}},
	}
	for _, k := range kinds {
		sig := map[string]interface{}{"prop": prop, "class": "app-dbi-kind", "kind": k.name}
		w, err := NewWorld(false, nil, Concs()[0], KeyConcs()[0], R)
		if err != nil {
			return err
		}
		w.Bucket = memory.New()
		for _, i := range []int{1, 2} {
			if err := w.AddInst(i, false); err != nil {
				return err
			}
			in := w.Insts[i]
			c := w.config(in.Name)
			lc := c.LMDBs["default"]
			lc.DupSortHack = true
			c.LMDBs["default"] = lc
			s, err := syncer.New("default", in.Env, w.Bucket, c, lc, syncer.Options{})
			if err != nil {
				return err
			}
			in.S = s
		}
		put := func(i int, p [2][]byte, del bool) error {
			return w.Insts[i].Env.Update(func(txn *lmdb.Txn) error {
				dbi, err := txn.OpenDBI("data", lmdb.Create|k.flags)
				if err != nil {
					return err
				}
				if del {
					if k.flags&lmdb.DupSort != 0 {
						return txn.Del(dbi, p[0], p[1])
					}
					return txn.Del(dbi, p[0], nil)
				}
				return txn.Put(dbi, p[0], p[1], 0)
			})
		}
		flagsOf := func(i int) (fl uint, ok bool) {
			_ = w.Insts[i].Env.View(func(txn *lmdb.Txn) error {
				dbi, err := txn.OpenDBI("data", 0)
				if err != nil {
					return nil
				}
				f, err := txn.Flags(dbi)
				if err == nil {
					fl, ok = f, true
				}
				return nil
			})
			return
		}
		same := func(stage string) {
			R.Add(1, 0, 0)
			p1, _, _ := readPairs(w.Insts[1].Env, "data")
			p2, _, _ := readPairs(w.Insts[2].Env, "data")
			f1, ok1 := flagsOf(1)
			f2, ok2 := flagsOf(2)
			if fmt.Sprint(p1.list()) != fmt.Sprint(p2.list()) {
				R.Bad(map[string]interface{}{"kind": k.name, "stage": stage}, sig, "%s DBI, %s: the application DBIs differ: instance 1 %v, instance 2 %v", k.name, stage, p1.list(), p2.list())
			} else if !ok1 || !ok2 || f1 != f2 {
				R.Bad(map[string]interface{}{"kind": k.name, "stage": stage}, sig, "%s DBI, %s: DBI flags differ: %#x (%v) vs %#x (%v)", k.name, stage, f1, ok1, f2, ok2)
			}
		}
		for _, p := range k.pairs {
			if err := put(1, p, false); err != nil {
				return err
			}
		}
		if _, err := w.Upload(1); err != nil {
			R.Bad(k.name, sig, "%s DBI: SendOnce fails: %v", k.name, err)
			w.Close()
			continue
		}
		if _, err := w.Merge(2, 1, 1); err != nil {
			R.Bad(k.name, sig, "%s DBI: LoadOnce on a fresh instance fails: %v", k.name, err)
			w.Close()
			continue
		}
		same("after the first snapshot")
		// a change on the receiver travels back
		if err := put(2, k.pairs[0], true); err != nil {
			R.Bad(k.name, sig, "%s DBI: the receiver cannot delete the first pair: %v", k.name, err)
			w.Close()
			continue
		}
		if _, err := w.Upload(2); err == nil {
			if _, err := w.Merge(1, 2, 1); err != nil {
				R.Bad(k.name, sig, "%s DBI: LoadOnce of the receiver's change fails: %v", k.name, err)
			} else {
				same("after a deletion on the receiver travelled back")
			}
		} else {
			R.Bad(k.name, sig, "%s DBI: SendOnce on the receiver fails: %v", k.name, err)
		}
		R.Add(0, 1, 1)
		w.Close()
	}
	return Emit(R)
}

// dupsortWithoutTransform: a snapshot DBI that carries the MDB_DUPSORT flag but does not state the dupsort-hack
// transform is inconsistent ("snapshots state the transform so that receivers without it refuse them"): a receiver
// with the hack enabled must refuse it instead of decoding plain keys as if they were hack-encoded.
func dupsortWithoutTransform(R *Result) error {
	sig := map[string]interface{}{"prop": "C20", "class": "flag-without-transform"}
	w, err := NewWorld(false, nil, Concs()[0], KeyConcs()[0], R)
	if err != nil {
		return err
	}
	defer w.Close()
	w.Bucket = memory.New()
	if err := w.AddInst(1, false); err != nil {
		return err
	}
	in := w.Insts[1]
	c := w.config(in.Name)
	lc := c.LMDBs["default"]
	lc.DupSortHack = true
	c.LMDBs["default"] = lc
	s, err := syncer.New("default", in.Env, w.Bucket, c, lc, syncer.Options{})
	if err != nil {
		return err
	}
	d := snapshot.NewDBISize(256)
	d.SetName("data")
	d.SetFlags(uint64(lmdb.DupSort)) // flag set, transform not stated
	d.Append(snapshot.KV{Key: []byte("ab\x00\x00\x00\x00zz\x02"), Value: []byte("payload"), TimestampNano: uint64(time.Now().UnixNano())})
	snap := &snapshot.Snapshot{FormatVersion: snapshot.CurrentFormatVersion, CompatVersion: snapshot.WriteCompatFormatVersion}
	snap.Meta.DatabaseName = "default"
	snap.Meta.InstanceID = "remote"
	snap.Databases = append(snap.Databases, d)
	ni := snapshot.NameInfo{Kind: snapshot.KindSnapshot, Extension: snapshot.DefaultExtension, SyncerName: "default", InstanceID: "remote",
		GenerationID: "GX", Timestamp: time.Now()}
	ni.FullName = ni.BuildName()
	_, _, lerr := s.LoadOnce(context.Background(), in.Env, "remote", snapshot.Update{Snapshot: snap, NameInfo: ni}, 0)
	R.Add(1, 1, 0)
	if lerr == nil {
		pairs, _, _ := readPairs(in.Env, "data")
		R.Bad("flag-without-transform", sig, "a snapshot DBI with the MDB_DUPSORT flag but without the dupsort_hack_v1 transform was merged by a receiver with the hack enabled; application pairs now %v", pairs.list())
	}
	return nil
}
