package hx

import (
	"context"
	"fmt"
	"os"
	"os/exec"
	"strings"
	"time"
)

func init() {
	Commands["rawread-probe"] = cmdRawReadProbe
	Commands["rawread-child"] = cmdRawReadChild
}

// cmdRawReadProbe (finding F10): an application entry with an EMPTY value behind an even-length key
// (e.g. MDB_INTEGERKEY) that is the first node of the last page of the data file makes readDBI
// (txn.RawRead = true) touch memory beyond the file mapping: SIGBUS.  Runs in a child process.
func cmdRawReadProbe(args []string) error {
	R := NewResult()
	exe, _ := os.Executable()
	for _, kc := range []string{"4", "1"} { // int4 keys (even length), ascii keys (odd length)
		ctx, cancel := context.WithTimeout(context.Background(), 30*time.Second)
		cmd := exec.CommandContext(ctx, exe, "rawread-child", kc)
		cmd.Env = append(os.Environ(), "GOTRACEBACK=none")
		out, err := cmd.CombinedOutput()
		cancel()
		R.Add(1, 1, 1)
		if err != nil || !strings.Contains(string(out), "RAWREAD-OK") {
			msg := string(out)
			if len(msg) > 200 {
				msg = msg[:200]
			}
			cls := "crash-reading-empty-value"
			if strings.Contains(msg, "SIGBUS") || strings.Contains(msg, "fault") || strings.Contains(fmt.Sprint(err), "signal") || strings.Contains(fmt.Sprint(err), "exit status 2") {
				cls = "sigbus-rawread-empty-value"
			}
			R.Bad(map[string]string{"key_concretisation": kc}, map[string]interface{}{"prop": "C11", "class": cls, "evenkey": kc != "1"},
				"shadow mode: SendOnce dies reading an application entry with an empty value (key concretisation %s): %v %s", kc, err, msg)
		}
	}
	R.Sample("child process: shadow-mode SendOnce over an application DBI holding one entry with an empty value")
	return Emit(R)
}

func cmdRawReadChild(args []string) error {
	R := NewResult()
	kc := KeyConcs()[0]
	if args[0] == "4" {
		for _, c := range KeyConcs() {
			if c.Name == "int4-zero" {
				kc = c
			}
		}
	}
	w, err := NewWorld(false, []int{1}, Concs()[0], kc, R)
	if err != nil {
		return err
	}
	defer w.Close()
	if err := w.ShadowPut(1, 1, 0); err != nil { // value class 0 = the empty value
		return err
	}
	if _, err := w.Upload(1); err != nil {
		return err
	}
	fmt.Println("RAWREAD-OK")
	return nil
}
