package hx

import (
	"bytes"
	"context"
	"fmt"
	"os"
	"os/exec"
	"sort"
	"strings"
	"time"

	"github.com/PowerDNS/lightningstream/config"
	"github.com/PowerDNS/lightningstream/snapshot"
	"github.com/PowerDNS/lightningstream/syncer"
	"github.com/PowerDNS/lmdb-go/lmdb"
	"github.com/PowerDNS/simpleblob/backends/memory"
)

func init() { Commands["bulk"] = cmdBulk }

// cmdBulk <property>: the protocol steps of LSProtocol (application writes, Upload, MergeSnap) on DBIs of several
// hundred entries with values of very different lengths, so that LMDB pages split and records move while Lightning
// Stream iterates and writes. The expected content is the per-key last-writer-wins reference (shadow mode: the
// application's DBI is the live projection). Abstract behaviours with one or two keys cannot show what depends on
// the page layout (slices that alias LMDB pages, cursors after page splits).
func cmdBulk(args []string) error {
	prop := "C01"
	if len(args) > 0 {
		prop = args[0]
	}
	R := NewResult()
	for sc := 0; sc < 6; sc++ {
		native := sc%2 == 1
		n := 300 + 137*(sc/2)
		if err := bulkScenario(R, prop, native, n, sc, sc >= 4); err != nil {
			return err
		}
	}
	return Emit(R)
}

// bulkKeyOf: byte keys, or 8-byte integer keys whose numeric order differs from their byte order
func bulkKeyOf(i int, intKey bool) []byte {
	if intKey {
		return U64(uint64(i)*257 + 1)
	}
	return []byte(fmt.Sprintf("key-%05d", i))
}
func bulkVal(i, gen int) []byte {
	l := 1 + (i*37+gen*101)%190
	if i%17 == 3 {
		l = 900 + i%700 // some large values
	}
	b := bytes.Repeat([]byte{byte('a' + (i+gen)%26)}, l)
	copy(b, fmt.Sprintf("%d:%d:", i, gen))
	return b
}

func bulkScenario(R *Result, prop string, native bool, n, sc int, intKey bool) error {
	sig := map[string]interface{}{"prop": prop, "class": "bulk", "native": native, "intkey": intKey}
	bulkKey := func(i int) []byte { return bulkKeyOf(i, intKey) }
	var dbiFlags uint
	if intKey {
		dbiFlags = lmdb.IntegerKey
	}
	w, err := NewWorld(native, nil, Concs()[0], KeyConcs()[0], R)
	if err != nil {
		return err
	}
	defer w.Close()
	w.Bucket = memory.New()
	for _, i := range []int{1, 2} {
		if err := w.AddInst(i, false); err != nil {
			return err
		}
	}
	bad := func(stage, format string, a ...interface{}) {
		R.Bad(map[string]interface{}{"scenario": sc, "stage": stage, "native": native, "entries": n}, sig, "%s (%d entries, native=%v): "+format, append([]interface{}{stage, n, native}, a...)...)
	}
	// the application's view: key -> value (nil = deleted); in native mode the application writes headers itself
	var clock uint64 = 1700000000000000000
	appPut := func(inst int, ks []int, gen int, del bool) error {
		return w.Insts[inst].Env.Update(func(txn *lmdb.Txn) error {
			dbi, err := txn.OpenDBI(w.DBIName, lmdb.Create|dbiFlags)
			if err != nil {
				return err
			}
			for _, k := range ks {
				clock++
				switch {
				case native && del:
					err = txn.Put(dbi, bulkKey(k), MakeRaw(clock, uint64(txn.ID()), 1, 0, nil), 0)
				case native:
					err = txn.Put(dbi, bulkKey(k), MakeRaw(clock, uint64(txn.ID()), 0, 0, bulkVal(k, gen)), 0)
				case del:
					err = txn.Del(dbi, bulkKey(k), nil)
					if lmdb.IsNotFound(err) {
						err = nil
					}
				default:
					err = txn.Put(dbi, bulkKey(k), bulkVal(k, gen), 0)
				}
				if err != nil {
					return err
				}
			}
			return nil
		})
	}
	view := func(inst int) (map[string]string, error) { // application view: live entries
		out := map[string]string{}
		name := w.DBIName
		raw, _, err := w.readRaw(inst, name)
		if err != nil {
			return nil, err
		}
		for _, e := range raw {
			if native {
				h, perr := ParseRaw(e.Val)
				if perr != nil {
					return nil, fmt.Errorf("key %q: %v", e.Key, perr)
				}
				if h.Flags&1 != 0 {
					continue
				}
				out[string(e.Key)] = string(h.Value)
			} else {
				out[string(e.Key)] = string(e.Val)
			}
		}
		return out, nil
	}
	diff := func(got, want map[string]string) string {
		var ks []string
		for k := range want {
			if g, ok := got[k]; !ok {
				ks = append(ks, k+" missing")
			} else if g != want[k] {
				ks = append(ks, k+" has another value")
			}
		}
		for k := range got {
			if _, ok := want[k]; !ok {
				ks = append(ks, fmt.Sprintf("%q unexpected", k))
			}
		}
		sort.Strings(ks)
		if len(ks) > 6 {
			ks = append(ks[:6], fmt.Sprintf("... %d differences", len(ks)))
		}
		return fmt.Sprint(ks)
	}
	expect := map[string]string{}
	set := func(ks []int, gen int, del bool) {
		for _, k := range ks {
			if del {
				delete(expect, string(bulkKey(k)))
			} else {
				expect[string(bulkKey(k))] = string(bulkVal(k, gen))
			}
		}
	}
	var even, odd, third, fifth []int
	for k := 0; k < n; k++ {
		if k%2 == 0 {
			even = append(even, k)
		} else {
			odd = append(odd, k)
		}
		if k%3 == 1 {
			third = append(third, k)
		}
		if k%5 == 2 && k%3 != 1 {
			fifth = append(fifth, k)
		}
	}
	check := func(stage string, inst int) bool {
		R.Add(1, 0, 0)
		got, err := view(inst)
		if err != nil {
			bad(stage, "instance %d: %v", inst, err)
			return false
		}
		if d := diff(got, expect); d != "[]" {
			bad(stage, "instance %d: the application's view differs from the last-writer-wins content: %s", inst, d)
			return false
		}
		if !native { // shadow DBI: every expected key live with the same value, deleted keys as markers, nothing else
			raw, _, _ := w.readRaw(inst, syncer.SyncDBIShadowPrefix+w.DBIName)
			sh := map[string]string{}
			for _, e := range raw {
				h, perr := ParseRaw(e.Val)
				if perr != nil {
					bad(stage, "instance %d: shadow entry %q: %v", inst, e.Key, perr)
					return false
				}
				if (!intKey && (!bytes.HasPrefix(e.Key, []byte("key-")) || len(e.Key) != 9)) || (intKey && len(e.Key) != 8) {
					bad(stage, "instance %d: the shadow DBI holds key %q which nobody wrote", inst, e.Key)
					return false
				}
				if h.Flags&1 == 0 {
					sh[string(e.Key)] = string(h.Value)
				}
			}
			if d := diff(sh, expect); d != "[]" {
				bad(stage, "instance %d: the live entries of the shadow DBI differ from the application's DBI: %s", inst, d)
				return false
			}
		}
		return true
	}
	step := func(stage string, f func() error) bool {
		if err := f(); err != nil {
			bad(stage, "%v", err)
			return false
		}
		return true
	}
	// A: instance 1 holds the even keys and uploads; instance 2 (fresh) merges, then adds the odd keys and uploads
	if !step("A", func() error { return appPut(1, even, 1, false) }) {
		return nil
	}
	set(even, 1, false)
	if !step("A upload", func() error { _, e := w.Upload(1); return e }) || !check("A after upload", 1) {
		return nil
	}
	if !step("A merge", func() error { _, e := w.Merge(2, 1, 1); return e }) || !check("A merged on a fresh instance", 2) {
		return nil
	}
	if !step("B", func() error { return appPut(2, odd, 2, false) }) {
		return nil
	}
	set(odd, 2, false)
	if !step("B upload", func() error { _, e := w.Upload(2); return e }) || !check("B after upload", 2) {
		return nil
	}
	// B: instance 1 merges a snapshot whose keys fall between its own (pages split while LS iterates)
	if !step("B merge", func() error { _, e := w.Merge(1, 2, 1); return e }) || !check("B keys merged between existing keys", 1) {
		return nil
	}
	// C: instance 1 deletes every third key and overwrites others in ONE transaction, uploads; instance 2 merges
	if !step("C", func() error {
		if err := appPut(1, third, 3, true); err != nil {
			return err
		}
		return appPut(1, fifth, 3, false)
	}) {
		return nil
	}
	set(third, 3, true)
	set(fifth, 3, false)
	if !step("C upload", func() error { _, e := w.Upload(1); return e }) || !check("C after many deletes and overwrites", 1) {
		return nil
	}
	if !step("C merge", func() error { _, e := w.Merge(2, 1, 2); return e }) || !check("C merged", 2) {
		return nil
	}
	// D: merging again changes nothing
	if !step("D merge again", func() error { _, e := w.Merge(2, 1, 2); return e }) || !check("D merged again", 2) {
		return nil
	}
	// E: stale snapshots (the first one of instance 1, taken before the deletes and overwrites) merged again:
	// nothing moves backwards
	if !step("E stale merge", func() error { _, e := w.Merge(1, 1, 1); return e }) || !check("E own stale snapshot merged", 1) {
		return nil
	}
	if !step("E stale merge", func() error { _, e := w.Merge(2, 1, 1); return e }) || !check("E stale snapshot merged", 2) {
		return nil
	}
	R.Add(0, 1, 1)
	return nil
}

func init() { Commands["config-gate"] = cmdConfigGate }

// cmdConfigGate: settings under which a property of the running system cannot hold are refused when the
// configuration is checked (the daemon calls Config.Check before it starts): a retry budget of zero (SendOnce would
// make no Store attempt and still report success), memory limits below one (no download could ever start), the
// dupsort hack together with a native schema.
func cmdConfigGate(args []string) error {
	R := NewResult()
	base := func() config.Config {
		c := config.Default()
		c.LMDBs = map[string]config.LMDB{"default": {Path: "/tmp/does-not-matter"}}
		return c
	}
	R.Add(1, 1, 1)
	if err := base().Check(); err != nil {
		R.Bad("defaults", map[string]interface{}{"prop": "conformance", "class": "config-gate"}, "the default configuration with one LMDB is refused: %v", err)
		return Emit(R)
	}
	type gate struct {
		name  string
		props []string
		mod   func(c *config.Config)
	}
	gates := []gate{
		{"storage_retry_count: 0", []string{"C05", "C09"}, func(c *config.Config) { c.StorageRetryCount = 0 }},
		{"storage_retry_count: -1", []string{"C05", "C09"}, func(c *config.Config) { c.StorageRetryCount = -1 }},
		{"memory_downloaded_snapshots: 0", []string{"C16"}, func(c *config.Config) { c.MemoryDownloadedSnapshots = 0 }},
		{"memory_decompressed_snapshots: 0", []string{"C16"}, func(c *config.Config) { c.MemoryDecompressedSnapshots = 0 }},
		{"schema_tracks_changes with dupsort_hack", []string{"C20"}, func(c *config.Config) {
			l := c.LMDBs["default"]
			l.SchemaTracksChanges, l.DupSortHack = true, true
			c.LMDBs["default"] = l
		}},
	}
	for _, g := range gates {
		c := base()
		g.mod(&c)
		R.Add(1, 1, 1)
		if err := c.Check(); err == nil {
			for _, p := range g.props {
				R.Bad(g.name, map[string]interface{}{"prop": p, "class": "config-gate", "setting": g.name}, "Config.Check accepts %s", g.name)
			}
		}
	}
	return Emit(R)
}

func init() {
	Commands["hostile-merge"] = cmdHostileMerge
	Commands["hostile-merge-child"] = cmdHostileMergeChild
}

// cmdHostileMerge (C08): a structurally valid snapshot with millions of entries that have no key is merged by the
// real LoadOnce in a child process: it may be refused, it must not kill or exhaust the process.
func cmdHostileMerge(args []string) error {
	R := NewResult()
	exe, _ := os.Executable()
	for _, mode := range []string{"native", "shadow"} {
		ctx, cancel := context.WithTimeout(context.Background(), 150*time.Second)
		out, err := exec.CommandContext(ctx, exe, "hostile-merge-child", mode).CombinedOutput()
		cancel()
		R.Add(1, 1, 1)
		if err != nil || !strings.Contains(string(out), "HM-OK") {
			msg := string(out)
			if i := strings.Index(msg, "fatal error"); i >= 0 {
				msg = msg[i:]
			} else if i := strings.Index(msg, "panic:"); i >= 0 {
				msg = msg[i:]
			}
			if len(msg) > 400 {
				msg = msg[:400]
			}
			R.Bad(mode, map[string]interface{}{"prop": "C08", "class": "merge-crash", "mode": mode},
				"merging a valid snapshot with 10 million keyless entries (%s mode) killed the process or did not end within 150 s: %v %s", mode, err, strings.ReplaceAll(msg, "\n", " | "))
		}
	}
	return Emit(R)
}

func cmdHostileMergeChild(args []string) error {
	native := len(args) > 0 && args[0] == "native"
	R := NewResult()
	w, err := NewWorld(native, nil, Concs()[0], KeyConcs()[0], R)
	if err != nil {
		return err
	}
	defer w.Close()
	w.Bucket = memory.New()
	if err := w.AddInst(1, false); err != nil {
		return err
	}
	d := snapshot.NewDBISize(64 << 20)
	d.SetName("data")
	for i := 0; i < 10_000_000; i++ {
		d.Append(snapshot.KV{Value: []byte("v")}) // an entry without a key
	}
	snap := &snapshot.Snapshot{FormatVersion: snapshot.CurrentFormatVersion, CompatVersion: snapshot.WriteCompatFormatVersion}
	snap.Meta.DatabaseName = "default"
	snap.Meta.InstanceID = "remote"
	snap.Databases = append(snap.Databases, d)
	ni := snapshot.NameInfo{Kind: snapshot.KindSnapshot, Extension: snapshot.DefaultExtension, SyncerName: "default", InstanceID: "remote",
		GenerationID: "GX", Timestamp: time.Now()}
	ni.FullName = ni.BuildName()
	_, _, lerr := w.Insts[1].S.LoadOnce(context.Background(), w.Insts[1].Env, "remote", snapshot.Update{Snapshot: snap, NameInfo: ni}, 0)
	fmt.Printf("HM-OK (LoadOnce: %v)\n", lerr)
	return nil
}
