package hx

import (
	"context"
	"fmt"
	"github.com/PowerDNS/lightningstream/config"
	"github.com/PowerDNS/lightningstream/syncer/events"
	"github.com/PowerDNS/lightningstream/syncer/hooks"
	"github.com/PowerDNS/lightningstream/syncer/receiver"
	"github.com/sirupsen/logrus"
	"math"
	"path/filepath"
	"regexp"
	"sort"
	"strings"
	"time"

	"github.com/PowerDNS/lightningstream/snapshot"
	"github.com/PowerDNS/lightningstream/syncer"
	"github.com/PowerDNS/simpleblob/backends/memory"
)

func init() { Commands["c15"] = cmdC15 }

type nameRow struct {
	Name  []string   `json:"name"`
	OK    bool       `json:"ok"`
	DB    []string   `json:"db"`
	Inst  []string   `json:"inst"`
	Gen   []string   `json:"gen"`
	Extra [][]string `json:"extra"`
}
type sanRow struct {
	In  []string `json:"in"`
	Out []string `json:"out"`
}

var nameTimes = []time.Time{
	time.Unix(0, 0).UTC(),
	time.Unix(0, 1).UTC(),
	time.Date(1999, 12, 31, 23, 59, 59, 999999999, time.UTC),
	time.Date(2000, 1, 1, 0, 0, 0, 0, time.UTC),
	time.Date(2024, 2, 29, 12, 30, 45, 123456789, time.UTC),
	time.Date(2024, 2, 29, 12, 30, 45, 123456790, time.UTC),
	time.Date(2024, 3, 1, 0, 0, 0, 100000000, time.UTC),
	time.Date(2024, 10, 9, 8, 7, 6, 5, time.UTC),
	time.Date(2024, 10, 10, 8, 7, 6, 5, time.UTC),
	time.Date(2025, 1, 1, 0, 0, 10, 0, time.UTC),
	time.Date(2025, 1, 1, 0, 1, 0, 0, time.UTC),
	time.Date(2025, 1, 1, 1, 0, 0, 0, time.UTC),
	time.Unix(0, math.MaxInt64).UTC(), // 2262-04-11
}

// concretise maps abstract characters to real ones; variant picks among the alternatives.
func concretise(s []string, variant int, ts time.Time) string {
	var sb strings.Builder
	letters := []string{"a", "Z", "0", "9", "m", "Q"}
	others := []string{" ", "/", "é", "\x00", "%", "\xff", "世"}
	for i, c := range s {
		switch c {
		case "a":
			sb.WriteString(letters[(variant+i)%len(letters)])
		case "x":
			sb.WriteString(others[(variant+i)%len(others)])
		case "T":
			sb.WriteString(snapshot.NameTimestamp(ts))
		case "E":
			sb.WriteString("pb.gz")
		default:
			sb.WriteString(c)
		}
	}
	return sb.String()
}

func cmdC15(args []string) error {
	var rows []nameRow
	var srows []sanRow
	if err := ReadJSON(filepath.Join(args[0], "name_parse_rows.json"), &rows); err != nil {
		return err
	}
	if err := ReadJSON(filepath.Join(args[0], "name_san_rows.json"), &srows); err != nil {
		return err
	}
	R := NewResult()
	rng := Rng()
	for ri, row := range rows {
		variant := ri % 7
		ts := nameTimes[ri%len(nameTimes)]
		name := concretise(row.Name, variant, ts)
		ni, err := snapshot.ParseName(name)
		R.Evaluations++
		sig := map[string]interface{}{"prop": "C15", "class": "parse"}
		if (err == nil) != row.OK {
			R.Bad(row, sig, "ParseName(%q): err=%v, specification ok=%v", name, err, row.OK)
			continue
		}
		if !row.OK {
			continue
		}
		R.Distinct++
		// the fields: concretise with the same positions -> recompute offsets by re-parsing the abstract name
		// (the abstract parts are contiguous slices of the abstract name, so lengths line up)
		want := func(part []string, offset int) string { return concretiseAt(part, variant, ts, offset) }
		off := 0
		db := want(row.DB, off)
		off += len(row.DB) + 2
		inst := want(row.Inst, off)
		off += len(row.Inst) + 2 + 1 + 2 // inst, "__", T, "__"
		gen := want(row.Gen, off)
		off += len(row.Gen)
		if ni.SyncerName != db || ni.InstanceID != inst || ni.GenerationID != gen || !ni.Timestamp.Equal(ts) || ni.Kind != snapshot.KindSnapshot {
			R.Bad(row, sig, "ParseName(%q) = {db %q inst %q gen %q ts %v}, specification {db %q inst %q gen %q ts %v}", name, ni.SyncerName, ni.InstanceID, ni.GenerationID, ni.Timestamp, db, inst, gen, ts)
		}
		if len(ni.Extra) != len(row.Extra) {
			R.Bad(row, sig, "ParseName(%q): %d extra items, specification %d", name, len(ni.Extra), len(row.Extra))
		}
		if re := ni.BuildName(); re != name {
			R.Bad(row, sig, "BuildName(ParseName(%q)) = %q", name, re)
		}
	}
	if len(rows) > 0 {
		R.Sample(map[string]interface{}{"abstract": rows[len(rows)/2].Name, "ok": rows[len(rows)/2].OK})
	}
	// sanitiser rows + seeded arbitrary instance names
	reSafe := regexp.MustCompile(`^[a-zA-Z0-9-]+$`)
	instID := func(inst string) (string, error) {
		w, err := NewWorld(true, nil, Concs()[0], KeyConcs()[0], R)
		if err != nil {
			return "", err
		}
		defer w.Close()
		w.Bucket = memory.New()
		if err := w.AddInst(1, false); err != nil {
			return "", err
		}
		c := w.config(inst)
		s, err := syncer.New("default", w.Insts[1].Env, w.Bucket, c, c.LMDBs["default"], syncer.Options{})
		if err != nil {
			return "", err
		}
		return s.VerifInstanceID(), nil
	}
	var cases []string
	for ri, r := range srows {
		if len(r.In) == 0 {
			continue
		}
		in := concretise(r.In, ri, nameTimes[0])
		cases = append(cases, in)
	}
	for i := 0; i < 300; i++ {
		n := 1 + rng.Intn(12)
		b := make([]byte, n)
		for j := range b {
			b[j] = "ab_Z9-. /_%\x00\xffé_"[rng.Intn(16)]
		}
		cases = append(cases, string(b))
	}
	cases = append(cases, "node__1", "edge_", "dc1___auth", "a.b", "host name", "_", "__", "ünï")
	// the same names as host names: without a configured instance name the host name is used, and sanitised likewise
	instIDHost := func(host string) (string, error) {
		old := syncer.VerifSetHostname(host)
		defer syncer.VerifSetHostname(old)
		return instID("")
	}
	for ci, in := range append(append([]string(nil), cases...), cases...) {
		viaHost := ci >= len(cases)
		var got string
		var err error
		if viaHost {
			if in == "" {
				continue
			}
			got, err = instIDHost(in)
		} else {
			got, err = instID(in)
		}
		R.Evaluations++
		sig := map[string]interface{}{"prop": "C15", "class": "sanitise", "via_hostname": viaHost}
		if err != nil {
			R.Bad(in, sig, "syncer.New with instance %q: %v", in, err)
			continue
		}
		if !reSafe.MatchString(got) {
			R.Bad(in, sig, "instance %q is sanitised to %q which leaves the safe character set", in, got)
			continue
		}
		// a name built with the sanitised instance parses back to it
		name := snapshot.Name("db-1", got, "GX", nameTimes[4])
		ni, perr := snapshot.ParseName(name)
		if perr != nil || ni.InstanceID != got || ni.SyncerName != "db-1" || !ni.Timestamp.Equal(nameTimes[4]) {
			R.Bad(in, sig, "name %q built for sanitised instance %q does not parse back (%v, %+v)", name, got, perr, ni)
		}
	}
	// chronological order = byte order, and exact round trip of timestamps (incl. non-UTC locations)
	times := append([]time.Time(nil), nameTimes...)
	for i := 0; i < 3000; i++ {
		times = append(times, time.Unix(0, rng.Int63()).UTC())
	}
	sort.Slice(times, func(i, j int) bool { return times[i].Before(times[j]) })
	locs := []*time.Location{time.UTC, time.FixedZone("plus", 9*3600), time.FixedZone("minus", -(3*3600 + 1800))}
	prev := ""
	var prevT time.Time
	for i, t := range times {
		tl := t.In(locs[i%len(locs)])
		name := snapshot.Name("db", "inst", "GX", tl)
		ni, err := snapshot.ParseName(name)
		R.Evaluations++
		sig := map[string]interface{}{"prop": "C15", "class": "time"}
		if err != nil || !ni.Timestamp.Equal(t) {
			R.Bad(name, sig, "timestamp %v (%s) does not round-trip through the name %q: %v %v", t, tl.Location(), name, ni.Timestamp, err)
		}
		if len(snapshot.NameTimestamp(tl)) != 25 {
			R.Bad(name, sig, "timestamp field is not 25 characters: %q", snapshot.NameTimestamp(tl))
		}
		if prev != "" && !t.Equal(prevT) && !(prev < name) {
			R.Bad(name, sig, "byte order of names does not follow time: %q (%v) !< %q (%v)", prev, prevT, name, t)
		}
		prev, prevT = name, t
	}
	// single-character damage to the timestamp field of a valid name: whatever still parses must re-build exactly
	// the same name (so that byte order of accepted names is their time order), everything else is refused
	for _, t := range []time.Time{nameTimes[3], nameTimes[4], time.Date(2022, 1, 2, 3, 4, 5, 0, time.UTC)} {
		name := snapshot.Name("db", "inst", "GX", t)
		ts := snapshot.NameTimestamp(t)
		at := strings.Index(name, ts)
		for pos := 0; pos < len(ts); pos++ {
			for _, ch := range []byte{'-', '_', '.', '0', '9', 'x', ' ', ':'} {
				if ts[pos] == ch {
					continue
				}
				b := []byte(name)
				b[at+pos] = ch
				damaged := string(b)
				ni, err := snapshot.ParseName(damaged)
				R.Evaluations++
				if err != nil {
					continue
				}
				// re-built from the parsed components (not from the string BuildName keeps from parsing)
				clean := ni
				clean.TimestampString = ""
				if rebuilt := clean.BuildName(); rebuilt != damaged {
					R.Bad(damaged, map[string]interface{}{"prop": "C15", "class": "time-damage"},
						"ParseName accepts %q (position %d of the timestamp damaged) but its components re-build to %q", damaged, pos, rebuilt)
				}
			}
		}
	}
	// names of other databases never carry our prefix
	dbs := []string{"a", "ab", "a-", "a-b", "default", "default2", "db", "d"}
	for _, d1 := range dbs {
		for _, d2 := range dbs {
			n := snapshot.Name(d2, "i1", "GX", nameTimes[3])
			R.Evaluations++
			if strings.HasPrefix(n, d1+"__") != (d1 == d2) {
				R.Bad(n, map[string]interface{}{"prop": "C15", "class": "prefix"}, "name %q of database %q matches the listing prefix of %q", n, d2, d1)
			}
		}
	}
	// a consumer of the names: the receiver's listing. Files under the database's prefix that are not snapshots
	// (unparsable, unknown extension, another registered kind, other databases) do not make the bucket "have
	// snapshots" and are no instances; one real snapshot does
	{
		otherKindOnce.Do(func() { snapshot.RegisterExtension("journal.gz", "journal") })
		st := memory.New()
		ctx := context.Background()
		jn := snapshot.NameInfo{Kind: "journal", Extension: "journal.gz", SyncerName: "default", InstanceID: "i7", GenerationID: "GX", Timestamp: nameTimes[3]}
		for _, f := range []string{"default__README", "default__i1__notatimestamp__GX.pb.gz", "default__i9__20240101-000100-000000000__GX.unknownext",
			snapshot.Name("default2", "i1", "GX", nameTimes[3]), jn.BuildName()} {
			_ = st.Store(ctx, f, []byte("x"))
		}
		l := logrus.New()
		l.SetLevel(logrus.PanicLevel)
		conf := config.Default()
		rc := receiver.New(st, conf, "default", l, "own", events.New(), hooks.New())
		sigc := map[string]interface{}{"prop": "C15", "class": "listing"}
		R.Evaluations++
		if err := rc.RunOnce(ctx, true); err != nil {
			R.Bad("listing", sigc, "RunOnce: %v", err)
		} else if rc.HasSnapshots() || len(rc.SeenInstances()) != 0 {
			R.Bad("listing", sigc, "a bucket that holds only files that are not snapshots of this database: HasSnapshots()=%v, instances %v", rc.HasSnapshots(), rc.SeenInstances())
		}
		_ = st.Store(ctx, snapshot.Name("default", "i3", "GX", nameTimes[3]), []byte("x"))
		R.Evaluations++
		if err := rc.RunOnce(ctx, true); err != nil {
			R.Bad("listing", sigc, "RunOnce: %v", err)
		} else if !rc.HasSnapshots() || fmt.Sprint(rc.SeenInstances()) != "[i3]" {
			R.Bad("listing", sigc, "one snapshot of instance i3 among files that are not snapshots: HasSnapshots()=%v, instances %v", rc.HasSnapshots(), rc.SeenInstances())
		}
	}
	R.Counters["parse_rows"] = len(rows)
	return Emit(R)
}

// concretiseAt concretises a part that starts at abstract offset `offset` of the whole name.
func concretiseAt(s []string, variant int, ts time.Time, offset int) string {
	pad := make([]string, offset)
	for i := range pad {
		pad[i] = "-"
	}
	full := concretise(append(pad, s...), variant, ts)
	return full[offset:]
}
