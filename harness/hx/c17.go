package hx

import (
	"context"
	"errors"
	"fmt"
	"io"
	"os"
	"os/exec"
	"runtime"
	"sort"
	"strings"
	"sync"
	"sync/atomic"
	"time"

	"github.com/PowerDNS/lightningstream/snapshot/storage"
	"github.com/PowerDNS/lightningstream/utils/climit"
	"github.com/PowerDNS/lightningstream/utils/topics"
	"github.com/PowerDNS/simpleblob/backends/memory"
)

func init() {
	Commands["topic"] = cmdTopic
	Commands["climit"] = cmdClimit
	Commands["globalstorage"] = cmdGlobalStorage
	Commands["gs-child"] = cmdGSChild
	Commands["cancel-leak"] = cmdCancelLeak
}

// ---------------------------------------------------------------- topics

type topicAct struct {
	A string `json:"a"` // publish | next | close | handle | cancel
	S string `json:"s"`
	K int    `json:"k"` // handle: the callback fails on its k-th value (0: never)
}
type topicObs struct {
	InCall  []string          `json:"inCall"`
	InClose []string          `json:"inClose"`
	LastRet map[string]string `json:"lastRet"`
	Got     map[string]int    `json:"got"`
}
type topicInput struct {
	Subs      []string     `json:"subs"`
	Buffered  []string     `json:"buffered"`
	Handlers  []string     `json:"handlers"` // consumed through Topic.Handle (not subscribed at the start)
	Sequences [][]topicAct `json:"sequences"`
}

type tproc struct {
	cmd     chan string
	inCall  atomic.Bool
	inClose atomic.Bool
	lastRet atomic.Value
	got     atomic.Int64
}

var errCallback = errors.New("callback failed")

func runTopicSequence(subs, buffered, handlers []string, seq []topicAct) (obsOut []topicObs, settledOut bool, panicOut string) {
	o, ok, pm := runTopicSequenceInner(subs, buffered, handlers, seq)
	return o, ok, pm
}

func runTopicSequenceInner(subs, buffered, handlers []string, seq []topicAct) ([]topicObs, bool, string) {
	t := topics.New[int]()
	ctx, cancel := context.WithCancel(context.Background())
	defer cancel()
	isBuf := map[string]bool{}
	for _, b := range buffered {
		isBuf[b] = true
	}
	pub := &tproc{cmd: make(chan string, 4)}
	procs := map[string]*tproc{}
	closeCh := map[string]chan struct{}{}
	var panicMsg atomic.Value
	guard := func(who string) {
		if r := recover(); r != nil {
			panicMsg.Store(fmt.Sprintf("%s: %v", who, r))
		}
	}
	go func() {
		defer guard("Publish")
		v := 0
		for range pub.cmd {
			v++
			pub.inCall.Store(true)
			t.Publish(v)
			pub.inCall.Store(false)
		}
	}()
	isHandler := map[string]bool{}
	for _, h := range handlers {
		isHandler[h] = true
	}
	cancels := map[string]context.CancelFunc{}
	for _, s := range subs {
		p := &tproc{cmd: make(chan string, 4)}
		p.lastRet.Store("none")
		procs[s] = p
		if isHandler[s] {
			continue // subscribes when Handle is called
		}
		sub := t.Subscribe(isBuf[s])
		closeCmd := make(chan struct{}, 1)
		go func(p *tproc) { // the subscriber's own goroutine: Next calls
			defer guard("Next")
			for range p.cmd {
				p.inCall.Store(true)
				_, err := sub.Next(ctx)
				switch {
				case err == nil:
					p.got.Add(1)
					p.lastRet.Store("value")
				case err == io.ErrClosedPipe:
					p.lastRet.Store("closed")
				default:
					p.lastRet.Store("cancelled")
				}
				p.inCall.Store(false)
			}
		}(p)
		go func(p *tproc) { // Close may come from another goroutine, at any moment
			defer guard("Close")
			for range closeCmd {
				p.inClose.Store(true)
				// "Close can safely be called multiple times, even from different goroutines": two at the same moment
				var cw sync.WaitGroup
				for j := 0; j < 2; j++ {
					cw.Add(1)
					go func() {
						defer cw.Done()
						defer guard("Close")
						sub.Close()
					}()
				}
				cw.Wait()
				p.inClose.Store(false)
			}
		}(p)
		pc := p
		cc := closeCmd
		defer func() { close(pc.cmd); close(cc) }()
		closeCh[s] = closeCmd
	}
	defer close(pub.cmd)
	observe := func() topicObs {
		o := topicObs{LastRet: map[string]string{}, Got: map[string]int{}}
		if pub.inCall.Load() {
			o.InCall = append(o.InCall, "pub")
		}
		for _, s := range subs {
			p := procs[s]
			if p.inCall.Load() {
				o.InCall = append(o.InCall, s)
			}
			if p.inClose.Load() {
				o.InClose = append(o.InClose, s)
			}
			o.LastRet[s] = p.lastRet.Load().(string)
			o.Got[s] = int(p.got.Load())
		}
		sort.Strings(o.InCall)
		sort.Strings(o.InClose)
		return o
	}
	var out []topicObs
	for _, a := range seq {
		switch a.A {
		case "publish":
			pub.inCall.Store(true)
			pub.cmd <- "publish"
		case "next":
			procs[a.S].inCall.Store(true)
			procs[a.S].cmd <- "next"
		case "close":
			procs[a.S].inClose.Store(true)
			closeCh[a.S] <- struct{}{}
		case "handle":
			p := procs[a.S]
			k := a.K
			hctx, hcancel := context.WithCancel(ctx)
			cancels[a.S] = hcancel
			p.inCall.Store(true)
			go func() {
				defer guard("Handle")
				err := t.Handle(hctx, func(v int) error {
					if n := p.got.Add(1); k != 0 && int(n) >= k {
						return errCallback
					}
					return nil
				})
				if errors.Is(err, errCallback) {
					p.lastRet.Store("cberr")
				} else {
					p.lastRet.Store("cancelled")
				}
				p.inCall.Store(false)
			}()
		case "cancel":
			if c := cancels[a.S]; c != nil {
				c()
			}
		}
		// settle
		var last string
		stable := 0
		var o topicObs
		settled := false
		for i := 0; i < 6000*settleMult(); i++ {
			o = observe()
			k := fmt.Sprint(o)
			if k == last {
				stable++
				if stable >= 15*settleMult() {
					settled = true
					break
				}
			} else {
				stable, last = 0, k
			}
			time.Sleep(400 * time.Microsecond)
		}
		if pm, _ := panicMsg.Load().(string); pm != "" {
			return out, true, pm
		}
		if !settled {
			return out, false, ""
		}
		out = append(out, o)
	}
	return out, true, ""
}

var closersMu sync.Mutex

func cmdTopic(args []string) error {
	var in topicInput
	if err := ReadJSON(args[0], &in); err != nil {
		return err
	}
	type res struct {
		Seq   []topicAct `json:"seq"`
		Obs   []topicObs `json:"obs"`
		OK    bool       `json:"settled"`
		Panic string     `json:"panic"`
	}
	results := make([]res, len(in.Sequences))
	ParallelFor(len(in.Sequences), 4, func(i int) {
		obs, ok, pm := runTopicSequence(in.Subs, in.Buffered, in.Handlers, in.Sequences[i])
		results[i] = res{in.Sequences[i], obs, ok, pm}
	})
	R := NewResult()
	R.Extra["results"] = results
	R.Traces = len(results)
	return Emit(R)
}

// ---------------------------------------------------------------- climit

// cmdClimit: tokens can be released from any goroutine any number of times; acquire blocks exactly while the
// limit is exhausted.  All interleavings of the small model are covered by brute force over schedules of
// acquire / release(x times, from k goroutines) with observation of who is parked.
func cmdClimit(args []string) error {
	R := NewResult()
	rng := Rng()
	sig := func(class string) map[string]interface{} {
		return map[string]interface{}{"prop": "C17", "class": class}
	}
	for round := 0; round < 400; round++ {
		limit := 1 + rng.Intn(3)
		cl := climit.New(fmt.Sprintf("db%d", round%3), "verif", limit, nil)
		var held []*climit.Token
		model := 0 // tokens held according to the specification
		waiting := 0
		var acquired atomic.Int64
		for step := 0; step < 12; step++ {
			switch rng.Intn(3) {
			case 0: // acquire in a new goroutine
				go func() {
					t := cl.Acquire()
					closersMu.Lock()
					held = append(held, t)
					closersMu.Unlock()
					acquired.Add(1)
				}()
				if model < limit {
					model++
				} else {
					waiting++
				}
			case 1: // release one token, from several goroutines at once, several times each
				closersMu.Lock()
				var t *climit.Token
				if len(held) > 0 {
					t = held[0]
					held = held[1:]
				}
				closersMu.Unlock()
				if t == nil {
					continue
				}
				var wg sync.WaitGroup
				var panics atomic.Int64
				n := 1 + rng.Intn(4)
				times := 1 + rng.Intn(3)
				for g := 0; g < n; g++ {
					wg.Add(1)
					go func() {
						defer wg.Done()
						defer func() {
							if r := recover(); r != nil {
								panics.Add(1)
							}
						}()
						for k := 0; k < times; k++ {
							t.Release()
						}
					}()
				}
				wg.Wait()
				if panics.Load() > 0 {
					R.Bad(round, sig("release-panic"), "releasing one token from %d goroutines panicked", n)
				}
				if waiting > 0 {
					waiting--
				} else {
					model--
				}
			case 2:
				time.Sleep(200 * time.Microsecond)
			}
			// settle and compare
			ok := false
			for i := 0; i < 2000; i++ {
				if int(acquired.Load()) == 0 {
				}
				closersMu.Lock()
				h := len(held)
				closersMu.Unlock()
				if cl.VerifLimit()-cl.VerifFree() == model && h <= model {
					ok = true
					break
				}
				time.Sleep(100 * time.Microsecond)
			}
			R.Add(1, 0, 0)
			if !ok {
				R.Bad(round, sig("token-count"), "limit %d: %d tokens held, the specification says %d (waiting %d)", limit, cl.VerifLimit()-cl.VerifFree(), model, waiting)
				break
			}
		}
		// release everything: nobody may stay parked
		deadline := time.Now().Add(3 * time.Second)
		for time.Now().Before(deadline) {
			closersMu.Lock()
			hs := held
			held = nil
			closersMu.Unlock()
			for _, t := range hs {
				t.Release()
			}
			if cl.VerifFree() == limit && len(hs) == 0 {
				break
			}
			time.Sleep(200 * time.Microsecond)
		}
		if cl.VerifFree() != limit {
			R.Bad(round, sig("token-leak"), "after releasing everything %d of %d tokens are free", cl.VerifFree(), limit)
		}
		R.Add(0, 1, 1)
	}
	R.Sample("400 seeded schedules: acquire from new goroutines, release of one token 1-3 times from 1-4 goroutines at once, limits 1..3")
	return Emit(R)
}

// ---------------------------------------------------------------- global storage (process-wide state: one child per scenario)

func cmdGlobalStorage(args []string) error {
	R := NewResult()
	exe, _ := os.Executable()
	scenarios := []string{"get-then-set", "set-then-get", "two-getters-then-set", "set-twice-get", "get-set-get"}
	for _, sc := range scenarios {
		ctx, cancel := context.WithTimeout(context.Background(), 20*time.Second)
		out, err := exec.CommandContext(ctx, exe, "gs-child", sc).CombinedOutput()
		cancel()
		R.Add(1, 1, 1)
		if err != nil || !strings.Contains(string(out), "GS-OK") {
			msg := string(out)
			if len(msg) > 300 {
				msg = msg[:300]
			}
			R.Bad(sc, map[string]interface{}{"prop": "C17", "class": "global-storage"}, "scenario %s: a caller that asked for the global storage does not receive it (%v): %s", sc, err, msg)
		}
	}
	R.Sample(scenarios)
	return Emit(R)
}

func cmdGSChild(args []string) error {
	sc := args[0]
	st := memory.New()
	get := func(ch chan bool) {
		go func() {
			got := storage.GetGlobal()
			ch <- got != nil
		}()
	}
	res := make(chan bool, 4)
	want := 0
	switch sc {
	case "get-then-set":
		get(res)
		want = 1
		time.Sleep(20 * time.Millisecond)
		storage.SetGlobal(st)
	case "set-then-get":
		storage.SetGlobal(st)
		get(res)
		want = 1
	case "two-getters-then-set":
		get(res)
		get(res)
		want = 2
		time.Sleep(20 * time.Millisecond)
		storage.SetGlobal(st)
	case "set-twice-get":
		storage.SetGlobal(st)
		storage.SetGlobal(memory.New())
		get(res)
		want = 1
	case "get-set-get":
		get(res)
		time.Sleep(10 * time.Millisecond)
		storage.SetGlobal(st)
		get(res)
		want = 2
	}
	for i := 0; i < want; i++ {
		select {
		case ok := <-res:
			if !ok {
				return fmt.Errorf("GetGlobal returned nil")
			}
		case <-time.After(5 * time.Second):
			return fmt.Errorf("GetGlobal did not return")
		}
	}
	if !storage.IsReady() {
		return fmt.Errorf("IsReady is false after SetGlobal")
	}
	fmt.Println("GS-OK")
	return nil
}

// ---------------------------------------------------------------- cancellation: nothing stays parked

func goroutinesIn(pkgs ...string) []string {
	buf := make([]byte, 1<<22)
	n := runtime.Stack(buf, true)
	var out []string
	for _, g := range strings.Split(string(buf[:n]), "\n\n") {
		for _, p := range pkgs {
			if strings.Contains(g, p) && !strings.Contains(g, "hx.goroutinesIn") {
				first := strings.SplitN(g, "\n", 2)[0]
				fn := ""
				for _, l := range strings.Split(g, "\n") {
					if strings.Contains(l, p) {
						fn = strings.TrimSpace(l)
						break
					}
				}
				out = append(out, first+" "+fn)
				break
			}
		}
	}
	return out
}

// cmdCancelLeak: two real instances run their full Sync loops (receiver, downloaders, cleaner, sweeper, stats)
// with application writers; after cancellation the loops must return and no goroutine of Lightning Stream may
// stay parked.
func cmdCancelLeak(args []string) error {
	R := NewResult()
	rounds := 4
	for round := 0; round < rounds; round++ {
		native := round%2 == 0
		w, err := NewWorld(native, nil, Concs()[0], KeyConcs()[0], R)
		if err != nil {
			return err
		}
		w.Bucket = memory.New()
		ctx, cancel := context.WithCancel(context.Background())
		var wg sync.WaitGroup
		errs := make(chan error, 4)
		for i := 1; i <= 2; i++ {
			if err := w.AddInst(i, false); err != nil {
				return err
			}
		}
		for i := 1; i <= 2; i++ {
			in := w.Insts[i]
			c := w.config(in.Name)
			c.Storage.Cleanup.Enabled = true
			c.Storage.Cleanup.Interval = 5 * time.Millisecond
			c.Storage.Cleanup.MustKeepInterval = time.Millisecond
			c.Storage.Cleanup.RemoveOldInstancesInterval = time.Hour
			if round%2 == 1 {
				// every instance counts as stale at once: the cleaner consults what the sync loop has committed
				// (GetCommitted) while the loop is merging and uploading
				c.Storage.Cleanup.RemoveOldInstancesInterval = time.Millisecond
			}
			c.Sweeper.Enabled = true
			c.Sweeper.RetentionDays = 1
			c.Sweeper.Interval = 5 * time.Millisecond
			c.Sweeper.FirstInterval = time.Millisecond
			c.Sweeper.LockDuration = time.Millisecond
			c.Sweeper.ReleaseDuration = time.Millisecond
			c.StoragePollInterval = 2 * time.Millisecond
			c.LMDBPollInterval = 2 * time.Millisecond
			c.MemoryDecompressedSnapshots = 1
			c.MemoryDownloadedSnapshots = 1
			s, err := newSyncerWith(w, in, c)
			if err != nil {
				return err
			}
			wg.Add(1)
			go func() { defer wg.Done(); errs <- s.Sync(ctx) }()
			wg.Add(1)
			go func(i int) { // the application
				defer wg.Done()
				for n := 0; ctx.Err() == nil && n < 200; n++ {
					if native {
						_ = w.NativeWrite(i, 1+n%2, Ver{TS: 1 + n%5, Val: 1 + n%2})
					} else {
						_ = w.ShadowPut(i, 1+n%2, 1+n%3)
					}
					time.Sleep(time.Millisecond)
				}
			}(i)
		}
		time.Sleep(time.Duration(60+40*round) * time.Millisecond)
		cancel()
		done := make(chan struct{})
		go func() { wg.Wait(); close(done) }()
		returned := true
		select {
		case <-done:
		case <-time.After(5 * time.Second):
			returned = false
		}
		R.Add(1, 1, 1)
		sig := func(class string) map[string]interface{} {
			return map[string]interface{}{"prop": "C17", "class": class}
		}
		if !returned {
			R.Bad(round, sig("loop-does-not-return"), "the sync loop did not return within 5 s after cancellation")
		}
		// give exiting goroutines a moment, then look for parked ones
		var left []string
		for i := 0; i < 40; i++ {
			left = goroutinesIn("lightningstream/syncer", "lightningstream/utils/climit", "lightningstream/utils/topics")
			if len(left) == 0 {
				break
			}
			time.Sleep(25 * time.Millisecond)
		}
		if len(left) > 0 {
			where := "downloader-acquire"
			for _, g := range left {
				if !(strings.Contains(g, "chan receive") && strings.Contains(g, "Downloader).LoadOnce")) && !strings.Contains(g, "climit") {
					where = "other"
				}
			}
			s := sig("goroutine-stays-parked")
			s["where"] = where
			R.Bad(map[string]interface{}{"round": round, "goroutines": left}, s, "%d goroutine(s) of Lightning Stream still parked 1 s after cancellation: %v", len(left), left)
		}
		w.Close()
	}
	// deterministic variant for the token pools: the loop sleeps (long poll interval) while three instances publish
	// new snapshots; with one decompress token the first downloader hands its snapshot to the (sleeping) loop, the
	// others wait for a token; after cancellation nobody may stay parked
	{
		w, err := NewWorld(true, nil, Concs()[0], KeyConcs()[0], R)
		if err != nil {
			return err
		}
		w.Bucket = memory.New()
		if err := w.AddInst(1, false); err != nil {
			return err
		}
		in := w.Insts[1]
		c := w.config(in.Name)
		c.LMDBPollInterval = time.Hour
		c.StoragePollInterval = 2 * time.Millisecond
		c.MemoryDecompressedSnapshots = 1
		c.MemoryDownloadedSnapshots = 1
		s, err := newSyncerWith(w, in, c)
		if err != nil {
			return err
		}
		ctx, cancel := context.WithCancel(context.Background())
		done := make(chan error, 1)
		go func() { done <- s.Sync(ctx) }()
		time.Sleep(30 * time.Millisecond) // the loop has done its first pass and sleeps
		d := &recvDriver{nseq: map[string]int{}, names: map[string]string{}, seqOf: map[string]int{}, instOf: map[string]string{}, t0: time.Now(),
			gb: &gatedBucket{Interface: w.Bucket, parked: map[string]chan bool{}}}
		for _, inst := range []string{"x", "y", "z"} {
			d.publish(inst, true)
		}
		time.Sleep(60 * time.Millisecond)
		cancel()
		returned := true
		select {
		case <-done:
		case <-time.After(5 * time.Second):
			returned = false
		}
		R.Add(1, 1, 1)
		sig := func(class string) map[string]interface{} {
			return map[string]interface{}{"prop": "C17", "class": class}
		}
		if !returned {
			R.Bad("tokens", sig("loop-does-not-return"), "the sync loop did not return within 5 s after cancellation")
		}
		var left []string
		for i := 0; i < 40; i++ {
			left = goroutinesIn("lightningstream/syncer", "lightningstream/utils/climit")
			if len(left) == 0 {
				break
			}
			time.Sleep(25 * time.Millisecond)
		}
		if len(left) > 0 {
			where := "downloader-acquire"
			for _, g := range left {
				if !(strings.Contains(g, "chan receive") && strings.Contains(g, "Downloader).LoadOnce")) && !strings.Contains(g, "climit") {
					where = "other"
				}
			}
			sg := sig("goroutine-stays-parked")
			sg["where"] = where
			R.Bad(map[string]interface{}{"scenario": "tokens", "goroutines": left}, sg, "%d goroutine(s) still parked 1 s after cancellation: %v", len(left), left)
		}
		w.Close()
	}
	// a storage backend whose Store keeps failing, with storage_retry_forever (and with a finite retry budget):
	// cancelling must still make the sync loop return
	for sc := 0; sc < 4; sc++ {
		native := sc%2 == 0
		w, err := NewWorld(native, nil, Concs()[0], KeyConcs()[0], R)
		if err != nil {
			return err
		}
		fb := &faultBucket{Interface: memory.New(), loadGate: map[string]chan struct{}{}}
		fb.failStores = 1 << 30
		w.Bucket = fb
		if err := w.AddInst(1, false); err != nil {
			return err
		}
		in := w.Insts[1]
		if native {
			_ = w.NativeWrite(1, 1, Ver{TS: 2, Val: 1})
		} else {
			_ = w.ShadowPut(1, 1, 1)
		}
		c := w.config(in.Name)
		c.StorageRetryForever = sc < 2
		c.StorageRetryCount = 3
		c.StorageRetryInterval = 2 * time.Millisecond
		s, err := newSyncerWith(w, in, c)
		if err != nil {
			return err
		}
		ctx, cancel := context.WithCancel(context.Background())
		done := make(chan error, 1)
		go func() { done <- s.Sync(ctx) }()
		time.Sleep(60 * time.Millisecond)
		cancel()
		R.Add(1, 1, 1)
		select {
		case <-done:
		case <-time.After(5 * time.Second):
			R.Bad(map[string]interface{}{"scenario": "store-keeps-failing", "retry_forever": c.StorageRetryForever, "native": native},
				map[string]interface{}{"prop": "C17", "class": "loop-does-not-return", "scenario": "store-keeps-failing"},
				"Store keeps failing (retry_forever=%v): the sync loop did not return within 5 s after cancellation", c.StorageRetryForever)
		}
		w.Close()
	}
	R.Sample("2 instances with receiver, downloaders, cleaner, sweeper and application writers; cancelled after 60-180 ms")
	return Emit(R)
}

func init() { Commands["retry-forever"] = cmdRetryForever }

// cmdRetryForever (C09): with storage_retry_forever a run of Store failures longer than storage_retry_count does not
// make the loop give up; the commit is published as soon as the storage works again.
func cmdRetryForever(args []string) error {
	R := NewResult()
	for sc := 0; sc < 2; sc++ {
		native := sc%2 == 0
		w, err := NewWorld(native, nil, Concs()[0], KeyConcs()[0], R)
		if err != nil {
			return err
		}
		fb := &faultBucket{Interface: memory.New(), loadGate: map[string]chan struct{}{}}
		fb.failStores = 5
		w.Bucket = fb
		if err := w.AddInst(1, false); err != nil {
			return err
		}
		in := w.Insts[1]
		if native {
			_ = w.NativeWrite(1, 1, Ver{TS: 2, Val: 1})
		} else {
			_ = w.ShadowPut(1, 1, 1)
		}
		c := w.config(in.Name)
		c.StorageRetryForever = true
		c.StorageRetryCount = 2
		c.StorageRetryInterval = 2 * time.Millisecond
		s, err := newSyncerWith(w, in, c)
		if err != nil {
			return err
		}
		ctx, cancel := context.WithCancel(context.Background())
		done := make(chan error, 1)
		go func() { done <- s.Sync(ctx) }()
		stored := false
		var early error
		ended := false
		for i := 0; i < 300 && !stored && !ended; i++ {
			select {
			case early = <-done:
				ended = true
			case <-time.After(10 * time.Millisecond):
			}
			fb.mu.Lock()
			stored = fb.stores > 0
			fb.mu.Unlock()
		}
		R.Add(1, 1, 1)
		sig := map[string]interface{}{"prop": "C09", "class": "retry-forever", "native": native}
		if ended {
			R.Bad(sc, sig, "storage_retry_forever: the sync loop gave up after the Store failures (%v)", early)
		} else if !stored {
			R.Bad(sc, sig, "storage_retry_forever: the committed data was not published within 3 s although the storage works again after 5 failures")
		}
		cancel()
		if !ended {
			select {
			case <-done:
			case <-time.After(5 * time.Second):
			}
		}
		w.Close()
	}
	return Emit(R)
}
