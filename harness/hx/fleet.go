package hx

import (
	"context"
	"encoding/json"
	"fmt"
	"math/rand"
	"os"
	"strconv"
	"sync"
	"time"

	"github.com/PowerDNS/lightningstream/lmdbenv/header"
	"github.com/PowerDNS/lmdb-go/lmdb"
	"github.com/PowerDNS/simpleblob/backends/memory"
)

func init() { Commands["fleet"] = cmdFleet }

// A fleet of real instances runs its Sync loops freely (real receiver, downloaders, timing) with random
// application writers.  Every LMDB write transaction of an instance is logged with its transaction id: the
// application's commits by the harness (it is the application), LS's transactions through the yield hook
// (recording mode, nothing blocks), each followed by a read of the instance's content in one read transaction
// tagged with that transaction's id.  Per instance the log, ordered by transaction id, must be a behaviour of
// the data-plane specification (FleetTrace.tla, validated by TLC); stored blobs are decoded and must be the
// image of the capturing transaction.

type fleetEvent struct {
	Kind  string              `json:"kind"` // app | merge | sendtxn | store | proj
	Txn   int64               `json:"txn"`
	K     int                 `json:"k,omitempty"`
	Val   int                 `json:"val"` // -1 = delete
	TS    uint64              `json:"ts,omitempty"`
	Name  string              `json:"name,omitempty"`
	LC    bool                `json:"lc,omitempty"`
	DB    map[string]RVerJSON `json:"db,omitempty"`
	App   map[string]int      `json:"app,omitempty"`
	Order int64               `json:"order"`
}

type RVerJSON struct {
	TS  uint64 `json:"ts"`
	Del bool   `json:"del"`
	Val int    `json:"val"`
}

type fleetRecorder struct {
	mu       sync.Mutex
	w        *World
	inst     int
	events   []fleetEvent
	nextName string
	nkeys    int
	started  bool
	images   map[string]map[string]RVerJSON
	imgMu    *sync.Mutex
	problems *[]string
}

func (r *fleetRecorder) decode(name string) {
	w := r.w
	upd, err := w.LoadBlob(name)
	r.imgMu.Lock()
	defer r.imgMu.Unlock()
	if err != nil {
		*r.problems = append(*r.problems, fmt.Sprintf("blob %s does not decode: %v", name, err))
		return
	}
	img := map[string]RVerJSON{}
	for _, d := range upd.Snapshot.Databases {
		if d.Name() != w.DBIName {
			continue
		}
		kvs, _ := d.AsInefficientKVList()
		for _, kv := range kvs {
			ka := w.keyAbs(kv.Key)
			va, _ := w.Conc.AbsVal(kv.Value)
			img[strconv.Itoa(ka)] = RVerJSON{kv.TimestampNano, kv.Flags&1 != 0, va}
		}
	}
	r.images[name] = img
}

var fleetSeq int64
var fleetSeqMu sync.Mutex

func nextOrder() int64 {
	fleetSeqMu.Lock()
	defer fleetSeqMu.Unlock()
	fleetSeq++
	return fleetSeq
}

func (r *fleetRecorder) add(e fleetEvent) {
	e.Order = nextOrder()
	r.mu.Lock()
	r.events = append(r.events, e)
	r.mu.Unlock()
}

// project reads the instance's content in ONE read transaction and tags it with the id of the last
// transaction visible to it.
func (r *fleetRecorder) project() {
	w := r.w
	in := w.Insts[r.inst]
	db := map[string]RVerJSON{}
	app := map[string]int{}
	var ver int64
	_ = in.Env.View(func(txn *lmdb.Txn) error {
		ver = int64(txn.ID())
		read := func(name string, headered bool) {
			dbi, err := txn.OpenDBI(name, 0)
			if err != nil {
				return
			}
			cur, err := txn.OpenCursor(dbi)
			if err != nil {
				return
			}
			defer cur.Close()
			for {
				k, v, e := cur.Get(nil, nil, lmdb.Next)
				if e != nil {
					return
				}
				ka := w.keyAbs(k)
				if ka == 0 {
					continue
				}
				if headered {
					h, err := ParseRaw(v)
					if err != nil {
						continue
					}
					va, _ := w.Conc.AbsVal(h.Value)
					db[strconv.Itoa(ka)] = RVerJSON{h.TS, h.Flags&1 != 0, va}
				} else {
					va, _ := w.Conc.AbsVal(v)
					app[strconv.Itoa(ka)] = va
				}
			}
		}
		read(w.headeredDBI(), true)
		if !w.Native {
			read(w.DBIName, false)
		}
		return nil
	})
	r.add(fleetEvent{Kind: "proj", Txn: ver, DB: db, App: app})
}

func (r *fleetRecorder) onYield(point string, args []interface{}) {
	switch point {
	case "loop.top":
		r.mu.Lock()
		r.started = true
		r.mu.Unlock()
	case "loop.next":
		if len(args) > 1 {
			r.mu.Lock()
			r.nextName, _ = args[1].(string)
			r.mu.Unlock()
		}
	case "load.txnDone":
		r.mu.Lock()
		name := r.nextName
		r.mu.Unlock()
		ts := uint64(0)
		if len(args) > 2 {
			if t, ok := args[2].(time.Time); ok {
				ts = uint64(header.TimestampFromTime(t))
			}
		}
		r.add(fleetEvent{Kind: "merge", Txn: toInt64(args[0]), Name: name, LC: args[1].(bool), TS: ts})
		r.project()
	case "send.txnDone":
		ts := uint64(0)
		if len(args) > 1 {
			if t, ok := args[1].(time.Time); ok {
				ts = uint64(header.TimestampFromTime(t))
			}
		}
		r.add(fleetEvent{Kind: "sendtxn", Txn: toInt64(args[0]), TS: ts})
		r.project()
	case "send.stored":
		name, _ := args[0].(string)
		r.decode(name) // right away: a cleaner may remove the blob later
		r.add(fleetEvent{Kind: "store", Name: name})
	}
}

type fleetOutput struct {
	Native    bool                           `json:"native"`
	NKeys     int                            `json:"nkeys"`
	Instances map[string][]fleetEvent        `json:"instances"`
	Images    map[string]map[string]RVerJSON `json:"images"` // blob name -> key -> version
	Final     map[string]fleetEvent          `json:"final"`
	Problems  []string                       `json:"problems"`
}

func cmdFleet(args []string) error {
	out := args[0]
	nruns := 4
	if len(args) > 1 && args[1] == "thorough" {
		nruns = 24
	}
	R := NewResult()
	var runs []fleetOutput
	for run := 0; run < nruns; run++ {
		fo, err := fleetRun(R, run%2 == 0, run)
		if err != nil {
			return err
		}
		runs = append(runs, fo)
		R.Add(0, 1, 1)
	}
	f, err := os.Create(out)
	if err != nil {
		return err
	}
	if err := json.NewEncoder(f).Encode(runs); err != nil {
		return err
	}
	f.Close()
	return Emit(R)
}

func fleetRun(R *Result, native bool, run int) (fleetOutput, error) {
	nkeys := 3
	fo := fleetOutput{Native: native, NKeys: nkeys, Instances: map[string][]fleetEvent{}, Images: map[string]map[string]RVerJSON{}, Final: map[string]fleetEvent{}}
	// values: 4 classes incl. no empty value in shadow mode (finding F3)
	w, err := NewWorld(native, nil, Concs()[0], KeyConcs()[0], R)
	if err != nil {
		return fo, err
	}
	defer w.Close()
	w.Bucket = memory.New()
	ctx, cancel := context.WithCancel(context.Background())
	var wg sync.WaitGroup
	recs := map[int]*fleetRecorder{}
	var imgMu sync.Mutex
	insts := []int{1, 2, 3}
	for _, i := range insts {
		if err := w.AddInst(i, false); err != nil {
			cancel()
			return fo, err
		}
	}
	for _, i := range insts {
		in := w.Insts[i]
		c := w.config(in.Name)
		c.StoragePollInterval = 2 * time.Millisecond
		c.LMDBPollInterval = 2 * time.Millisecond
		c.StorageRetryInterval = time.Millisecond
		c.MemoryDecompressedSnapshots = 2
		c.MemoryDownloadedSnapshots = 2
		c.Storage.Cleanup.Enabled = true
		c.Storage.Cleanup.Interval = 10 * time.Millisecond
		c.Storage.Cleanup.MustKeepInterval = 40 * time.Millisecond
		c.Storage.Cleanup.RemoveOldInstancesInterval = time.Hour
		s, err := newSyncerWith(w, in, c)
		if err != nil {
			cancel()
			return fo, err
		}
		rec := &fleetRecorder{w: w, inst: i, nkeys: nkeys, images: fo.Images, imgMu: &imgMu, problems: &fo.Problems}
		recs[i] = rec
		gatesMu.Lock()
		recorders[s] = rec
		gatesMu.Unlock()
		wg.Add(1)
		go func() { defer wg.Done(); _ = s.Sync(ctx) }()
	}
	// the applications start once every loop has passed its start-up phase (the start-up capture with the
	// 1 ns timestamp is outside the steady state the trace specification describes)
	for i := 0; i < 2000; i++ {
		ready := true
		for _, r := range recs {
			r.mu.Lock()
			if !r.started {
				ready = false
			}
			r.mu.Unlock()
		}
		if ready {
			break
		}
		time.Sleep(time.Millisecond)
	}
	var awg sync.WaitGroup
	for _, i := range insts {
		awg.Add(1)
		go func(i int) {
			defer awg.Done()
			rng := rand.New(rand.NewSource(Seed()*1000 + int64(run*10+i)))
			in := w.Insts[i]
			for n := 0; n < 25+rng.Intn(15); n++ {
				k := 1 + rng.Intn(nkeys)
				v := 1 + rng.Intn(3)
				del := rng.Intn(4) == 0
				var txnID int64
				var ts uint64
				noop := false
				err := in.Env.Update(func(txn *lmdb.Txn) error {
					dbi, err := txn.OpenDBI(w.DBIName, lmdb.Create)
					if err != nil {
						return err
					}
					txnID = int64(txn.ID())
					if native {
						ts = uint64(time.Now().UnixNano())
						fl := byte(0)
						val := w.Conc.Val[v]
						if del {
							fl, val = 1, nil
						}
						return txn.Put(dbi, w.key(k), MakeRaw(ts, uint64(txn.ID()), fl, 0, val), 0)
					}
					if del {
						e := txn.Del(dbi, w.key(k), nil)
						if lmdb.IsNotFound(e) {
							noop = true // nothing deleted: LMDB does not record this transaction
							return nil
						}
						return e
					}
					return txn.Put(dbi, w.key(k), w.Conc.Val[v], 0)
				})
				if err == nil && !noop {
					val := v
					if del {
						val = -1
					}
					recs[i].add(fleetEvent{Kind: "app", Txn: txnID, K: k, Val: val, TS: ts})
				}
				time.Sleep(time.Duration(1+rng.Intn(6)) * time.Millisecond)
			}
		}(i)
	}
	awg.Wait()
	// quiet period: let the fleet converge (until all instances hold the same content, at most 8 s)
	for i := 0; i < 160; i++ {
		time.Sleep(50 * time.Millisecond)
		same := true
		var first string
		for n, id := range insts {
			raw, _, _ := w.readRaw(id, w.headeredDBI())
			var sb []byte
			for _, e := range raw {
				h, err := ParseRaw(e.Val)
				if err != nil {
					continue
				}
				sb = append(sb, []byte(fmt.Sprintf("%x=%d/%v/%x;", e.Key, h.TS, h.Flags&1, h.Value))...)
			}
			if n == 0 {
				first = string(sb)
			} else if string(sb) != first {
				same = false
			}
		}
		if same && i >= 3 {
			break
		}
	}
	cancel()
	done := make(chan struct{})
	go func() { wg.Wait(); close(done) }()
	select {
	case <-done:
	case <-time.After(5 * time.Second):
		fo.Problems = append(fo.Problems, "sync loops did not return after cancellation")
	}
	for _, i := range insts {
		gatesMu.Lock()
		delete(recorders, w.Insts[i].S)
		gatesMu.Unlock()
		recs[i].project()
		evs := recs[i].events
		fo.Final[strconv.Itoa(i)] = evs[len(evs)-1]
		fo.Instances[strconv.Itoa(i)] = evs
		R.Add(len(evs), 0, 0)
	}
	return fo, nil
}
