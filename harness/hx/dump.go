package hx

import (
	"bytes"
	"context"
	"fmt"
	"io"
	"sort"
	"strings"
	"sync"
	"time"

	"github.com/PowerDNS/lightningstream/syncer"
	"github.com/PowerDNS/lightningstream/syncer/hooks"
	"github.com/PowerDNS/lmdb-go/lmdb"
	"github.com/PowerDNS/simpleblob/backends/memory"
)

func init() { Commands["dump"] = cmdDump }

type dumpAct struct {
	Name   string `json:"name"`
	Held   bool   `json:"held"`
	Toggle bool   `json:"toggle"`
	D      int    `json:"d"`
	Txn    int    `json:"txn"`
}
type dumpStep struct {
	Act     dumpAct `json:"act"`
	LastTxn int     `json:"lastTxn"`
	Pin     int     `json:"pin"`
}
type dumpInput struct {
	Native     bool         `json:"native"`
	Behaviours [][]dumpStep `json:"behaviours"`
}

func cmdDump(args []string) error {
	var in dumpInput
	if err := ReadJSON(args[0], &in); err != nil {
		return err
	}
	R := NewResult()
	var firstErr error
	var mu sync.Mutex
	ParallelFor(len(in.Behaviours), 8, func(bi int) {
		if err := replayDump(R, in, in.Behaviours[bi], bi); err != nil {
			mu.Lock()
			if firstErr == nil {
				firstErr = fmt.Errorf("behaviour %d: %w", bi, err)
			}
			mu.Unlock()
		}
		R.Add(0, 0, 1)
	})
	if firstErr != nil {
		return firstErr
	}
	return Emit(R)
}

type dbiSpec struct {
	name string
	flag uint
	keys [][]byte // k0 (constant), k1 (counter), k2 (toggled)
}

type rawContent map[string]map[string][]byte // dbi -> key -> raw LMDB value

func replayDump(R *Result, in dumpInput, beh []dumpStep, bi int) error {
	w, err := NewWorld(in.Native, nil, Concs()[0], KeyConcs()[0], R)
	if err != nil {
		return err
	}
	defer w.Close()
	w.Bucket = memory.New()
	if err := w.AddInst(1, false); err != nil {
		return err
	}
	inst := w.Insts[1]
	long := append(bytes.Repeat([]byte{'x'}, 510), 'k')
	// k0 constant, k1 rewritten by every commit, k2 and the group k3..k8 present or absent together (a toggle deletes
	// seven keys of each DBI in one transaction)
	dbis := []dbiSpec{
		{"d1", 0, [][]byte{[]byte("k0"), long, []byte("k2"), []byte("t3"), []byte("t4"), []byte("t5-longer-key"), []byte("t6"), []byte("t7"), []byte("t8")}},
		{"d2", 0x08, [][]byte{U64(0), U64(1), U64(1 << 40), U64(2), U64(3), U64(4), U64(5), U64(1<<40 + 1), U64(1<<63 + 7)}},
	}
	bigVal := bytes.Repeat([]byte("0123456789abcdef"), 8000) // 128 kB
	counter := 1
	toggled := false
	history := map[int64]rawContent{}
	appVal := func(c int, k int) []byte {
		switch {
		case k == 0:
			return []byte{} // an empty application value
		case c%3 == 0:
			return append([]byte(fmt.Sprintf("c%d:", c)), bigVal...)
		default:
			return []byte(fmt.Sprintf("c%d", c))
		}
	}
	var holdCh chan struct{} // non-nil: the next commit keeps its transaction open until the channel is closed
	var holdStarted chan struct{}
	commit := func() error {
		return inst.Env.Update(func(txn *lmdb.Txn) error {
			if h := holdCh; h != nil {
				hs := holdStarted
				holdStarted = nil
				defer func() {
					if hs != nil {
						close(hs) // the write lock is held and everything is written
					}
					<-h
				}()
			}
			cur := rawContent{}
			for di, d := range dbis {
				dbi, err := txn.OpenDBI(d.name, lmdb.Create|d.flag)
				if err != nil {
					return err
				}
				cur[d.name] = map[string][]byte{}
				put := func(k int, del bool) error {
					var val []byte
					v := appVal(counter, k)
					if in.Native {
						fl := byte(0)
						if del {
							fl = 1
							if k%2 == 0 {
								v = nil
							} else {
								v = []byte("value-left-in-a-marker") // a marker written by an application that kept a value
							}
						}
						extra := 0
						if (counter+di)%2 == 0 {
							extra = 2 // extension blocks written by "others"
						}
						val = MakeRaw(uint64(1000+counter), uint64(txn.ID()), fl, extra, v)
					} else {
						if del {
							e := txn.Del(dbi, d.keys[k], nil)
							if lmdb.IsNotFound(e) {
								return nil
							}
							return e
						}
						val = v
						if len(val) == 0 && k != 0 {
							val = []byte("v")
						}
						if k == 0 {
							val = []byte("const") // shadow mode: empty values are finding F3
						}
					}
					cur[d.name][string(d.keys[k])] = val
					return txn.Put(dbi, d.keys[k], val, 0)
				}
				if err := put(0, false); err != nil {
					return err
				}
				if err := put(1, false); err != nil {
					return err
				}
				for k := 2; k < len(d.keys); k++ {
					if toggled {
						if err := put(k, false); err != nil {
							return err
						}
					} else if counter > 1 {
						if err := put(k, true); err != nil {
							return err
						}
					}
				}
			}
			history[int64(txn.ID())] = cur
			return nil
		})
	}
	if err := commit(); err != nil { // transaction 1 = the model's initial content
		return err
	}
	bad := func(class string, si int, format string, a ...interface{}) {
		sig := map[string]interface{}{"prop": "C06", "class": class, "native": in.Native}
		R.Bad(map[string]interface{}{"behaviour": beh[:si+1], "native": in.Native}, sig, "step %d (%s): "+format, append([]interface{}{si, beh[si].Act.Name}, a...)...)
	}

	// gates inside the dump
	type gateEv struct{ kind string }
	gateCh := make(chan gateEv)
	resume := make(chan struct{})
	h := hooks.New()
	h.BeforeRead = func(p hooks.BeforeReadParams) error {
		gateCh <- gateEv{"before"}
		<-resume
		return nil
	}
	h.FilterReadDBI = func(p hooks.FilterReadDBIParams) bool {
		gateCh <- gateEv{"entry"}
		<-resume
		return true
	}
	c := w.config(inst.Name)
	s, err := syncer.New("default", inst.Env, w.Bucket, c, c.LMDBs["default"], syncer.Options{Hooks: h})
	if err != nil {
		return err
	}
	var sendErr error
	var sendDone chan struct{}
	var lastSnapTime uint64
	var heldDone chan error
	var tBeforeHeldCommit uint64
	var heldTxn int64
	started := false
	passed := 0              // entry gates passed in the running dump
	splitInside := bi%2 == 1 // application commits land between two entries instead of between two DBIs

	nextGate := func() (string, bool) {
		select {
		case ev := <-gateCh:
			return ev.kind, true
		case <-sendDone:
			return "", false
		case <-time.After(10 * time.Second):
			return "timeout", false
		}
	}
	// passTo releases the parked dump until `target` entries have been read (it stays parked after that entry)
	passTo := func(target int) bool {
		for passed < target {
			resume <- struct{}{}
			if _, ok := nextGate(); !ok {
				return false
			}
			passed++
		}
		return true
	}

	// a behaviour may end with the application's transaction still open or the dump parked at a gate: let both
	// finish, or their goroutines (each locked to an OS thread by LMDB) stay behind
	defer func() {
		if holdCh != nil {
			close(holdCh)
			<-heldDone
		}
		if sendDone != nil {
			for {
				select {
				case <-sendDone:
					return
				case <-gateCh:
				case resume <- struct{}{}:
				case <-time.After(10 * time.Second):
					return
				}
			}
		}
	}()
	for si, st := range beh {
		a := st.Act
		R.Add(1, 0, 0)
		switch a.Name {
		case "init":
		case "hold":
			// the application opens its next transaction now and keeps it open (it holds the write lock)
			counter++
			holdCh = make(chan struct{})
			heldDone = make(chan error, 1)
			hs := make(chan struct{})
			holdStarted = hs
			go func() { heldDone <- commit() }()
			select {
			case <-hs:
			case <-time.After(10 * time.Second):
				return fmt.Errorf("held application transaction did not start")
			}
		case "app":
			if a.Held {
				if a.Toggle { // content of a held transaction is fixed when it was opened; the toggle is ignored
				}
				tBeforeHeldCommit = uint64(time.Now().UnixNano())
				close(holdCh)
				holdCh = nil
				if err := <-heldDone; err != nil {
					return err
				}
				heldTxn = w.lastTxn(1)
				break
			}
			counter++
			if a.Toggle {
				toggled = !toggled
			}
			if err := commit(); err != nil {
				return err
			}
		case "call":
			passed = 0
			tBeforeHeldCommit = 0
			if !in.Native && holdCh != nil {
				// SendOnce is called while the application holds the write lock: it has to wait
				sendDone = make(chan struct{})
				done := sendDone
				go func() {
					_, sendErr = s.SendOnce(context.Background(), inst.Env)
					close(done)
				}()
				started = true
				time.Sleep(20 * time.Millisecond)
			}
		case "begin":
			if !started {
				sendDone = make(chan struct{})
				done := sendDone
				go func() {
					_, sendErr = s.SendOnce(context.Background(), inst.Env)
					close(done)
				}()
			}
			started = false
			kind, ok := nextGate()
			if !ok || kind != "before" {
				bad("gate", si, "SendOnce did not reach hooks.BeforeRead (%s, err=%v)", kind, sendErr)
				return nil
			}
		case "read":
			if in.Native {
				target := 0
				for i := 0; i < a.D; i++ {
					n := len(history[int64(st.Pin)][dbis[i].name])
					if i == a.D-1 && splitInside {
						n = 1
					}
					target += n
				}
				if !passTo(target) {
					bad("gate", si, "the dump ended before entry %d (err=%v)", target, sendErr)
					return nil
				}
			}
		case "finish":
			finished := false
			for i := 0; i < 100000 && !finished; i++ {
				select {
				case resume <- struct{}{}:
				case <-gateCh:
				case <-sendDone:
					finished = true
				case <-time.After(10 * time.Second):
					bad("gate", si, "SendOnce did not finish")
					return nil
				}
			}
			if sendErr != nil {
				bad("send-error", si, "SendOnce failed: %v", sendErr)
				return nil
			}
			// decode the newest blob
			ls, _ := w.Bucket.List(context.Background(), "")
			names := ls.Names()
			sort.Strings(names)
			upd, err := w.LoadBlob(names[len(names)-1])
			if err != nil {
				bad("decode", si, "stored blob does not decode: %v", err)
				return nil
			}
			m := upd.Snapshot.Meta
			if m.LmdbTxnID != int64(a.Txn) && in.Native {
				bad("txn", si, "metadata names transaction %d, the dump was pinned to %d", m.LmdbTxnID, a.Txn)
			}
			if m.DatabaseName != "default" || m.InstanceID != inst.Name || upd.NameInfo.InstanceID != inst.Name || upd.NameInfo.SyncerName != "default" {
				bad("meta", si, "name/metadata do not name database and instance: %+v %+v", m, upd.NameInfo)
			}
			if uint64(upd.NameInfo.Timestamp.UnixNano()) != m.TimestampNano {
				bad("meta", si, "name timestamp differs from metadata timestamp")
			}
			if tBeforeHeldCommit != 0 && heldTxn <= m.LmdbTxnID && m.TimestampNano < tBeforeHeldCommit {
				bad("time-before-content", si, "the snapshot claims time %d but contains an application commit made at %d (%.1f ms later)", m.TimestampNano, tBeforeHeldCommit, float64(tBeforeHeldCommit-m.TimestampNano)/1e6)
			}
			if m.TimestampNano <= lastSnapTime {
				bad("meta", si, "snapshot time %d is not later than the previous snapshot's %d", m.TimestampNano, lastSnapTime)
			}
			lastSnapTime = m.TimestampNano
			got := map[string]map[string]string{}
			flags := map[string]uint64{}
			for _, d := range upd.Snapshot.Databases {
				if strings.HasPrefix(d.Name(), syncer.SyncDBIPrefix) {
					bad("private-dbi", si, "private DBI %s in the snapshot", d.Name())
					continue
				}
				flags[d.Name()] = d.Flags()
				got[d.Name()] = map[string]string{}
				d.ResetCursor()
				for {
					kv, err := d.Next()
					if err == io.EOF {
						break
					}
					if err != nil {
						bad("decode", si, "%v", err)
						break
					}
					got[d.Name()][string(kv.Key)] = fmt.Sprintf("ts=%d del=%v val=%x", kv.TimestampNano, kv.Flags&1 != 0, shortHash(kv.Value))
					if kv.Flags&^1 != 0 {
						bad("flags", si, "unsynced entry flag bits %#x in the snapshot", kv.Flags)
					}
				}
			}
			for _, d := range dbis {
				if flags[d.name] != uint64(d.flag) {
					bad("dbi-flags", si, "DBI %s has flags %#x in the snapshot, LMDB %#x", d.name, flags[d.name], d.flag)
				}
			}
			if in.Native {
				want := map[string]map[string]string{}
				for dn, kvs := range history[int64(a.Txn)] {
					want[dn] = map[string]string{}
					for k, raw := range kvs {
						hh, _ := ParseRaw(raw)
						want[dn][k] = fmt.Sprintf("ts=%d del=%v val=%x", hh.TS, hh.Flags&1 != 0, shortHash(hh.Value))
					}
				}
				if fmt.Sprint(got) != fmt.Sprint(want) {
					bad("image-differs", si, "the snapshot is not the image of transaction %d: got %v want %v", a.Txn, got, want)
				}
			} else {
				// shadow mode: the snapshot must equal the shadow DBIs as they are now, and show the
				// application's current content as live entries
				for _, d := range dbis {
					raw, _, _ := w.readRaw(1, syncer.SyncDBIShadowPrefix+d.name)
					want := map[string]string{}
					for _, e := range raw {
						hh, err := ParseRaw(e.Val)
						if err != nil {
							bad("C14", si, "%v", err)
							continue
						}
						want[string(e.Key)] = fmt.Sprintf("ts=%d del=%v val=%x", hh.TS, hh.Flags&1 != 0, shortHash(hh.Value))
					}
					if fmt.Sprint(got[d.name]) != fmt.Sprint(want) {
						bad("image-differs", si, "DBI %s: snapshot %v, shadow DBI %v", d.name, got[d.name], want)
					}
					cur := history[w.lastTxnOfApp(history)][d.name]
					for k, v := range cur {
						e := fmt.Sprintf("del=false val=%x", shortHash(v))
						if !strings.HasSuffix(got[d.name][k], e) {
							bad("image-differs", si, "DBI %s key %x: application value not in the snapshot (%s)", d.name, k, got[d.name][k])
						}
					}
					known := map[string]bool{}
					for _, k := range d.keys {
						known[string(k)] = true
					}
					for k, e := range got[d.name] {
						if !known[k] {
							bad("image-differs", si, "DBI %s: the snapshot holds key %x which the application never wrote", d.name, k)
						} else if _, has := cur[k]; !has && !strings.Contains(e, "del=true") {
							bad("image-differs", si, "DBI %s key %x: deleted by the application, live in the snapshot (%s)", d.name, k, e)
						}
					}
				}
			}
		}
	}
	if len(beh) > 3 {
		R.Add(0, 1, 0)
	}
	if bi%211 == 2 {
		var acts []string
		for _, s := range beh {
			acts = append(acts, s.Act.Name)
		}
		R.Sample(map[string]interface{}{"behaviour": acts, "native": in.Native})
	}
	return nil
}

func shortHash(b []byte) []byte {
	if len(b) <= 16 {
		return b
	}
	// length + head + tail identify the generated values
	out := append([]byte(fmt.Sprintf("%d:", len(b))), b[:8]...)
	return append(out, b[len(b)-8:]...)
}

// lastTxnOfApp returns the highest application transaction id recorded.
func (w *World) lastTxnOfApp(h map[int64]rawContent) int64 {
	var m int64
	for k := range h {
		if k > m {
			m = k
		}
	}
	return m
}
