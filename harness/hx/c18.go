package hx

import (
	"bytes"
	"context"
	"fmt"
	"path/filepath"
	"sort"
	"sync"
	"sync/atomic"
	"time"

	"github.com/PowerDNS/lightningstream/lmdbenv"
	"github.com/PowerDNS/lightningstream/snapshot"
	"github.com/PowerDNS/lightningstream/syncer"
	"github.com/PowerDNS/lmdb-go/lmdb"
	"github.com/PowerDNS/simpleblob/backends/memory"
	"github.com/c2h5oh/datasize"
)

func init() { Commands["c18"] = cmdC18 }

type gateRow struct {
	Fmt       int    `json:"fmt"`
	Compat    int    `json:"compat"`
	Transform string `json:"transform"`
	DupFlag   bool   `json:"dupflag"`
	Native    bool   `json:"native"`
	Exists    bool   `json:"exists"`
	Private   bool   `json:"private"`
	Gate      string `json:"gate"`
	Readable  bool   `json:"readable"`
}

// fullDump returns a byte-exact dump of every named DBI plus LastTxnID.
func fullDump(env *lmdb.Env) (string, error) {
	var sb bytes.Buffer
	err := env.View(func(txn *lmdb.Txn) error {
		names, err := lmdbenv.ReadDBINames(txn)
		if err != nil {
			return err
		}
		sort.Strings(names)
		for _, n := range names {
			dbi, err := txn.OpenDBI(n, 0)
			if err != nil {
				return err
			}
			fl, _ := txn.Flags(dbi)
			fmt.Fprintf(&sb, "[%s flags=%#x]", n, fl)
			cur, err := txn.OpenCursor(dbi)
			if err != nil {
				return err
			}
			for {
				k, v, e := cur.Get(nil, nil, lmdb.Next)
				if lmdb.IsNotFound(e) {
					break
				}
				if e != nil {
					cur.Close()
					return e
				}
				fmt.Fprintf(&sb, "%x=%x;", k, v)
			}
			cur.Close()
		}
		return nil
	})
	info, _ := env.Info()
	fmt.Fprintf(&sb, "#txn=%d", info.LastTxnID)
	return sb.String(), err
}

type c18World struct {
	w   *World
	in  *WInst
	s   *syncer.Syncer
	env *lmdb.Env
}

func newC18World(R *Result, native bool, mapSize datasize.ByteSize) (*c18World, error) {
	w, err := NewWorld(native, nil, Concs()[0], KeyConcs()[0], R)
	if err != nil {
		return nil, err
	}
	w.Bucket = memory.New()
	if mapSize == 0 {
		if err := w.AddInst(1, false); err != nil {
			return nil, err
		}
	} else {
		dir, err := makeTempDir()
		if err != nil {
			return nil, err
		}
		env, err := lmdbenv.NewWithOptions(dir, lmdbenv.Options{Create: true, MapSize: mapSize})
		if err != nil {
			return nil, err
		}
		w.Insts[1] = &WInst{ID: 1, Name: "i1", Env: env, Dir: dir}
	}
	in := w.Insts[1]
	c := w.config(in.Name)
	lc := c.LMDBs["default"]
	if !native {
		lc.DupSortHack = true
	}
	s, err := syncer.New("default", in.Env, w.Bucket, c, lc, syncer.Options{})
	if err != nil {
		return nil, err
	}
	return &c18World{w: w, in: in, s: s, env: in.Env}, nil
}

// seed puts pre-existing content: DBI "aaa" with a native/plain value and optionally "d1".
func (cw *c18World) seed(native bool, withD1 bool) error {
	err := cw.env.Update(func(txn *lmdb.Txn) error {
		names := []string{"aaa"}
		if withD1 {
			names = append(names, "d1")
		}
		for _, n := range names {
			dbi, err := txn.OpenDBI(n, lmdb.Create)
			if err != nil {
				return err
			}
			val := []byte("old")
			if native {
				val = MakeRaw(100, uint64(txn.ID()), 0, 0, []byte("old"))
			}
			if err := txn.Put(dbi, []byte("gen"), val, 0); err != nil {
				return err
			}
			if err := txn.Put(dbi, []byte("zap"), val, 0); err != nil {
				return err
			}
		}
		return nil
	})
	if err != nil {
		return err
	}
	if !native {
		// let LS create its shadow DBIs the regular way
		_, err = cw.s.SendOnce(context.Background(), cw.env)
	}
	return err
}

func plainDBI(name string, flags uint64, transform string, kvs []snapshot.KV) *snapshot.DBI {
	d := snapshot.NewDBISize(1024)
	d.SetName(name)
	d.SetFlags(flags)
	d.SetTransform(transform)
	for _, kv := range kvs {
		d.Append(kv)
	}
	return d
}

func cmdC18(args []string) error {
	var rows []gateRow
	if err := ReadJSON(filepath.Join(args[0], "gate_rows.json"), &rows); err != nil {
		return err
	}
	tierName := "quick"
	if len(args) > 1 {
		tierName = args[1]
	}
	R := NewResult()
	var mu sync.Mutex
	var firstErr error
	ParallelFor(len(rows), 8, func(ri int) {
		if err := gateCase(R, rows[ri], ri); err != nil {
			mu.Lock()
			if firstErr == nil {
				firstErr = err
			}
			mu.Unlock()
		}
	})
	if firstErr != nil {
		return firstErr
	}
	if len(rows) > 0 {
		R.Sample(rows[len(rows)/3])
	}
	for _, native := range []bool{true, false} {
		if err := failureInjection(R, native, tierName); err != nil {
			return err
		}
		if err := readerAtomicity(R, native); err != nil {
			return err
		}
	}
	return Emit(R)
}

func gateCase(R *Result, row gateRow, ri int) error {
	cw, err := newC18World(R, row.Native, 0)
	if err != nil {
		return err
	}
	defer cw.w.Close()
	if err := cw.seed(row.Native, row.Exists); err != nil {
		return err
	}
	before, _ := fullDump(cw.env)
	now := uint64(time.Now().UnixNano()) + uint64(time.Hour)
	name := "d1"
	if row.Private {
		name = "_sync_private"
	}
	var flags uint64
	if row.DupFlag {
		flags = uint64(lmdb.DupSort)
	}
	key := []byte("gen")
	zap := []byte("zap")
	if row.Transform == "dupsort_hack_v1" {
		e1, _ := syncer.VerifDupSortHackEncodeOne(snapshot.KV{Key: key, Value: []byte("new")})
		key = e1.Key
		e2, _ := syncer.VerifDupSortHackEncodeOne(snapshot.KV{Key: zap, Value: []byte("x")})
		zap = e2.Key
	}
	// entry 2 has an empty value: in format version 1 that denotes a deletion
	d1 := plainDBI(name, flags, row.Transform, []snapshot.KV{
		{Key: key, Value: []byte("new"), TimestampNano: now},
		{Key: zap, Value: nil, TimestampNano: now},
	})
	aaa := plainDBI("aaa", 0, "", []snapshot.KV{{Key: []byte("gen"), Value: []byte("new"), TimestampNano: now}})
	variants := [][]*snapshot.DBI{{aaa, d1}}
	if row.Private && row.Transform == "" && !row.DupFlag && row.Exists {
		variants = append(variants, []*snapshot.DBI{d1}, []*snapshot.DBI{}) // only a private DBI / no DBI at all
	}
	for vi, dbis := range variants {
		snap := &snapshot.Snapshot{FormatVersion: uint32(row.Fmt), CompatVersion: uint32(row.Compat), Databases: dbis}
		snap.Meta.InstanceID = "remote"
		upd := snapshot.Update{Snapshot: snap, NameInfo: snapshot.NameInfo{Kind: snapshot.KindSnapshot, InstanceID: "remote", Timestamp: time.Now()}}
		for _, d := range dbis {
			d.ResetCursor()
		}
		_, _, lerr := cw.s.LoadOnce(context.Background(), cw.env, "remote", upd, 0)
		after, _ := fullDump(cw.env)
		R.Add(1, 0, 0)
		expectRefuse := !row.Readable || (vi == 0 && row.Gate == "refuse")
		sig := map[string]interface{}{"prop": "C18", "class": "gate", "only_private_or_empty": vi > 0, "readable": row.Readable}
		desc := map[string]interface{}{"row": row, "variant": vi}
		switch {
		case expectRefuse && lerr == nil:
			sig["class"] = "accepted-unreadable"
			R.Bad(desc, sig, "snapshot with formatVersion=%d compatVersion=%d transform=%q dupsort-flag=%v (native=%v, DBI exists=%v, %d DBIs) was accepted, the specification refuses it", row.Fmt, row.Compat, row.Transform, row.DupFlag, row.Native, row.Exists, len(dbis))
		case expectRefuse && after != before:
			R.Bad(desc, sig, "refused snapshot left the LMDB changed (fmt=%d compat=%d transform=%q)", row.Fmt, row.Compat, row.Transform)
		case !expectRefuse && lerr != nil:
			sig["class"] = "refused-valid"
			R.Bad(desc, sig, "snapshot fmt=%d compat=%d transform=%q dupflag=%v native=%v exists=%v private=%v refused: %v", row.Fmt, row.Compat, row.Transform, row.DupFlag, row.Native, row.Exists, row.Private, lerr)
		case !expectRefuse:
			// merged: "aaa" carries the new value; a private DBI was not created; v1 empty value = deletion
			if vi == 0 {
				if err := checkMerged(cw, row); err != "" {
					R.Bad(desc, sig, "%s", err)
				}
			}
		}
		if after != before {
			break // content changed: later variants would start from another state
		}
	}
	R.Add(0, 1, 1)
	return nil
}

func appValue(cw *c18World, native bool, dbiName string, key []byte) (val []byte, deleted, present bool) {
	_ = cw.env.View(func(txn *lmdb.Txn) error {
		dbi, err := txn.OpenDBI(dbiName, 0)
		if err != nil {
			return nil
		}
		v, err := txn.Get(dbi, key)
		if err != nil {
			return nil
		}
		present = true
		if native {
			h, e := ParseRaw(v)
			if e != nil {
				return nil
			}
			val, deleted = append([]byte(nil), h.Value...), h.Flags&1 != 0
		} else {
			val = append([]byte(nil), v...)
		}
		return nil
	})
	return
}

func checkMerged(cw *c18World, row gateRow) string {
	v, del, ok := appValue(cw, row.Native, "aaa", []byte("gen"))
	if !ok || del || string(v) != "new" {
		return fmt.Sprintf("accepted snapshot was not merged: aaa/gen = %q (present=%v deleted=%v)", v, ok, del)
	}
	if row.Private {
		if _, _, ok := appValue(cw, row.Native, "_sync_private", []byte("gen")); ok {
			return "a private bookkeeping DBI from the snapshot was created locally"
		}
		return ""
	}
	if row.Transform != "" {
		return ""
	}
	// entry "zap" has an empty value
	v, del, ok = appValue(cw, row.Native, "d1", []byte("zap"))
	if row.Fmt == 1 {
		gone := !ok || del
		if !gone {
			return fmt.Sprintf("format version 1: an empty value denotes a deletion, but d1/zap is still visible (%q)", v)
		}
	} else if row.Native && (!ok || del || len(v) != 0) {
		return fmt.Sprintf("format version %d: an empty value is a live empty value, d1/zap present=%v deleted=%v value=%q", row.Fmt, ok, del, v)
	}
	return ""
}

// countingCtx is cancelled at its n-th Done() call.
type countingCtx struct {
	context.Context
	n    int64
	at   int64
	done chan struct{}
	once sync.Once
}

func (c *countingCtx) Done() <-chan struct{} {
	if atomic.AddInt64(&c.n, 1) >= c.at {
		c.once.Do(func() { close(c.done) })
	}
	return c.done
}
func (c *countingCtx) Err() error {
	select {
	case <-c.done:
		return context.Canceled
	default:
		return nil
	}
}

func failureInjection(R *Result, native bool, tierName string) error {
	now := uint64(time.Now().UnixNano()) + uint64(time.Hour)
	mkSnap := func(nd, ne int, vlen int, corruptDBI, corruptEntry int) *snapshot.Snapshot {
		snap := &snapshot.Snapshot{FormatVersion: 3, CompatVersion: 1}
		for d := 0; d < nd; d++ {
			dm := snapshot.NewDBISize(ne*(vlen+64) + 64)
			dm.SetName(fmt.Sprintf("db%d", d))
			for e := 0; e < ne; e++ {
				dm.Append(snapshot.KV{Key: []byte(fmt.Sprintf("key-%04d", e)), Value: bytes.Repeat([]byte{'n'}, vlen), TimestampNano: now})
			}
			dm.Append(snapshot.KV{Key: []byte("gen"), Value: []byte("new"), TimestampNano: now})
			if d == corruptDBI && corruptEntry%3 != 0 {
				// an entry whose own length is consistent but whose inner field runs past its end: the key announces
				// 9 bytes where 3 are left, or a fixed64 timestamp is cut
				raw := append([]byte(nil), dm.Marshal()...)
				if corruptEntry%3 == 1 {
					raw = append(raw, 0x12, 0x05, 0x0a, 0x09, 'a', 'b', 'c')
				} else {
					raw = append(raw, 0x12, 0x06, 0x0a, 0x01, 'k', 0x19, 0x01, 0x02)
				}
				raw = append(raw, 0x12, 0x05, 0x0a, 0x03, 'z', 'z', 'z') // a good entry after it
				if bad, err := snapshot.NewDBIFromData(raw); err == nil {
					dm = bad
				}
			} else if d == corruptDBI {
				// cut the message inside entry `corruptEntry`
				raw := append([]byte(nil), dm.Marshal()...)
				per := len(raw) / (ne + 2)
				cut := per*(corruptEntry+1) + per/2
				if cut >= len(raw) {
					cut = len(raw) - 3
				}
				raw = raw[:cut]
				// keep the outer framing valid: the DBI message simply ends inside an entry
				bad, err := snapshot.NewDBIFromData(raw)
				if err == nil {
					dm = bad
				} else {
					// indexing already notices: use a DBI whose last entry declares too many bytes
					raw2 := append([]byte(nil), dm.Marshal()...)
					raw2 = append(raw2, 0x12, 0x7f, 0x0a, 0x01, 'k') // entry of declared length 127 with 3 bytes present
					bad2, err2 := snapshot.NewDBIFromData(raw2)
					if err2 == nil {
						dm = bad2
					}
				}
			}
			snap.Databases = append(snap.Databases, dm)
		}
		return snap
	}
	run := func(desc map[string]interface{}, class string, mapSize datasize.ByteSize, snap *snapshot.Snapshot, ctx context.Context, mustFail bool) error {
		cw, err := newC18World(R, native, mapSize)
		if err != nil {
			return err
		}
		defer cw.w.Close()
		// pre-existing generation in every DBI
		err = cw.env.Update(func(txn *lmdb.Txn) error {
			for d := 0; d < 3; d++ {
				dbi, err := txn.OpenDBI(fmt.Sprintf("db%d", d), lmdb.Create)
				if err != nil {
					return err
				}
				val := []byte("old")
				if native {
					val = MakeRaw(100, uint64(txn.ID()), 0, 0, []byte("old"))
				}
				if err := txn.Put(dbi, []byte("gen"), val, 0); err != nil {
					return err
				}
			}
			return nil
		})
		if err != nil {
			if mapSize != 0 {
				return nil // the map is too small even for the initial content
			}
			return err
		}
		if !native {
			if _, err := cw.s.SendOnce(context.Background(), cw.env); err != nil {
				if mapSize != 0 {
					return nil
				}
				return err
			}
		}
		before, _ := fullDump(cw.env)
		upd := snapshot.Update{Snapshot: snap, NameInfo: snapshot.NameInfo{Kind: snapshot.KindSnapshot, InstanceID: "remote", Timestamp: time.Now()}}
		for _, d := range snap.Databases {
			d.ResetCursor()
		}
		_, _, lerr := cw.s.LoadOnce(ctx, cw.env, "remote", upd, 0)
		after, _ := fullDump(cw.env)
		R.Add(1, 1, 1)
		sig := map[string]interface{}{"prop": "C18", "class": class, "native": native}
		if lerr != nil && after != before {
			R.Bad(desc, sig, "LoadOnce failed (%v) but the LMDB was changed: a partially merged snapshot was committed", lerr)
		}
		if e, ok := desc["entry"].(int); lerr == nil && mustFail && class == "malformed" && ok && e%3 != 0 { // the inner-field truncations always yield an undecodable entry
			R.Bad(desc, sig, "LoadOnce reported success for a snapshot with a malformed entry (entries after it are silently lost, the rest is committed)")
		}
		if lerr == nil && mustFail {
			gens := map[string]bool{}
			for d := 0; d < 3; d++ {
				v, _, _ := appValue(cw, native, fmt.Sprintf("db%d", d), []byte("gen"))
				gens[string(v)] = true
			}
			if len(gens) > 1 {
				R.Bad(desc, sig, "LoadOnce reported success although it was interrupted, and the DBIs hold different generations %v", gens)
			}
		}
		if lerr != nil && class == "cancel" {
			// the same update merged again after the interrupted attempt was rolled back: the whole snapshot, not
			// what the first attempt had not yet read
			_, _, lerr2 := cw.s.LoadOnce(context.Background(), cw.env, "remote", upd, 0)
			R.Add(1, 0, 0)
			if lerr2 != nil {
				R.Bad(desc, sig, "merging the snapshot again after the interrupted attempt fails: %v", lerr2)
			} else {
				for d := 0; d < 3; d++ {
					v, _, _ := appValue(cw, native, fmt.Sprintf("db%d", d), []byte("gen"))
					k0, _, _ := appValue(cw, native, fmt.Sprintf("db%d", d), []byte("key-0000"))
					if string(v) != "new" || len(k0) == 0 || k0[0] != 'n' {
						R.Bad(desc, sig, "after an interrupted attempt was rolled back, merging the same snapshot again reports success but DBI db%d holds gen=%q key-0000=%.12q: only part of the snapshot was merged", d, v, k0)
						break
					}
				}
			}
		}
		return nil
	}
	// malformed entry in DBI j at entry e
	for j := 0; j < 3; j++ {
		for e := 0; e < 4; e++ {
			if err := run(map[string]interface{}{"malformed_dbi": j, "entry": e, "native": native}, "malformed", 0, mkSnap(3, 4, 10, j, e), context.Background(), true); err != nil {
				return err
			}
		}
	}
	// cancellation at the n-th check
	for n := int64(1); n <= 8; n++ {
		ctx := &countingCtx{Context: context.Background(), at: n, done: make(chan struct{})}
		if err := run(map[string]interface{}{"cancel_at_check": n, "native": native}, "cancel", 0, mkSnap(3, 4, 10, -1, 0), ctx, true); err != nil {
			return err
		}
	}
	// map full at successive points
	sizes := []int{40, 80, 120, 160, 200, 260, 320}
	if tierName == "thorough" {
		sizes = nil
		for s := 24; s <= 400; s += 12 {
			sizes = append(sizes, s)
		}
	}
	for _, kb := range sizes {
		if err := run(map[string]interface{}{"map_kb": kb, "native": native}, "mapfull", datasize.ByteSize(kb)*datasize.KB, mkSnap(3, 30, 2000, -1, 0), context.Background(), false); err != nil {
			return err
		}
	}
	return nil
}

// readerAtomicity: a concurrent reader compares the generation key of all DBIs in one read transaction while
// snapshots (successful and failing ones) are merged.
func readerAtomicity(R *Result, native bool) error {
	cw, err := newC18World(R, native, 0)
	if err != nil {
		return err
	}
	defer cw.w.Close()
	names := []string{"db0", "db1", "db2"}
	err = cw.env.Update(func(txn *lmdb.Txn) error {
		for _, n := range names {
			dbi, err := txn.OpenDBI(n, lmdb.Create)
			if err != nil {
				return err
			}
			val := []byte("g0")
			if native {
				val = MakeRaw(100, uint64(txn.ID()), 0, 0, []byte("g0"))
			}
			if err := txn.Put(dbi, []byte("gen"), val, 0); err != nil {
				return err
			}
		}
		return nil
	})
	if err != nil {
		return err
	}
	if !native {
		if _, err := cw.s.SendOnce(context.Background(), cw.env); err != nil {
			return err
		}
	}
	stop := make(chan struct{})
	var mixed atomic.Int64
	var reads atomic.Int64
	var wg sync.WaitGroup
	for r := 0; r < 3; r++ {
		wg.Add(1)
		go func() {
			defer wg.Done()
			for {
				select {
				case <-stop:
					return
				default:
				}
				_ = cw.env.View(func(txn *lmdb.Txn) error {
					var first string
					for i, n := range names {
						dbi, err := txn.OpenDBI(n, 0)
						if err != nil {
							return nil
						}
						v, err := txn.Get(dbi, []byte("gen"))
						if err != nil {
							return nil
						}
						s := string(v)
						if native {
							h, _ := ParseRaw(v)
							s = string(h.Value)
						}
						if i == 0 {
							first = s
						} else if s != first {
							mixed.Add(1)
						}
					}
					reads.Add(1)
					return nil
				})
			}
		}()
	}
	base := uint64(time.Now().UnixNano()) + uint64(time.Hour)
	for g := 1; g <= 30; g++ {
		snap := &snapshot.Snapshot{FormatVersion: 3, CompatVersion: 1}
		for di, n := range names {
			dm := snapshot.NewDBISize(1 << 16)
			dm.SetName(n)
			dm.Append(snapshot.KV{Key: []byte("gen"), Value: []byte(fmt.Sprintf("g%d", g)), TimestampNano: base + uint64(g)})
			for e := 0; e < 300; e++ {
				dm.Append(snapshot.KV{Key: []byte(fmt.Sprintf("key-%04d", e)), Value: bytes.Repeat([]byte{'v'}, 100), TimestampNano: base + uint64(g)})
			}
			if g%3 == 0 && di == 2 {
				raw := append([]byte(nil), dm.Marshal()...)
				raw = append(raw, 0x12, 0x7f, 0x0a, 0x01, 'k')
				if bad, err := snapshot.NewDBIFromData(raw); err == nil {
					dm = bad
				}
			}
			snap.Databases = append(snap.Databases, dm)
		}
		upd := snapshot.Update{Snapshot: snap, NameInfo: snapshot.NameInfo{Kind: snapshot.KindSnapshot, InstanceID: "remote", Timestamp: time.Now()}}
		_, _, _ = cw.s.LoadOnce(context.Background(), cw.env, "remote", upd, 0)
	}
	close(stop)
	wg.Wait()
	R.Add(int(reads.Load()), 1, 1)
	if mixed.Load() > 0 {
		R.Bad(map[string]interface{}{"native": native}, map[string]interface{}{"prop": "C18", "class": "reader-saw-partial", "native": native},
			"a concurrent reader observed a partially merged snapshot %d times in %d reads", mixed.Load(), reads.Load())
	}
	R.Count("reader_transactions", int(reads.Load()))
	return nil
}
