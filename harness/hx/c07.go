package hx

import (
	"bytes"
	"compress/gzip"
	"encoding/binary"
	"fmt"
	"hash/fnv"
	"io"
	"math/rand"
	"path/filepath"
	"runtime"
	"strconv"
	"strings"
	"time"

	"github.com/PowerDNS/lightningstream/snapshot"
	"github.com/PowerDNS/lightningstream/snapshot/gogosnapshot"
)

func init() {
	Commands["c07"] = cmdC07
	Commands["c08"] = cmdC08
}

type wField struct {
	N   int      `json:"n"`
	WT  string   `json:"wt"`
	V   string   `json:"v"`
	Sub []wField `json:"sub"`
	Msg bool     `json:"msg"`
}

type wKV struct {
	Key   string `json:"key"`
	Val   string `json:"val"`
	TS    string `json:"ts"`
	Flags string `json:"flags"`
}
type wDBI struct {
	Name      string `json:"name"`
	Flags     string `json:"flags"`
	Transform string `json:"transform"`
	Entries   []wKV  `json:"entries"`
}
type wMeta struct {
	Gen  string `json:"gen"`
	Inst string `json:"inst"`
	Host string `json:"host"`
	Txn  string `json:"txn"`
	TS   string `json:"ts"`
	DB   string `json:"db"`
	From string `json:"from"`
}
type wContent struct {
	OK     bool   `json:"ok"`
	Fmt    string `json:"fmt"`
	Compat string `json:"compat"`
	Meta   wMeta  `json:"meta"`
	DBIs   []wDBI `json:"dbis"`
}
type wRow struct {
	Tree []wField `json:"tree"`
	Want wContent `json:"want"`
}

func tokNum(t string) uint64 {
	switch t {
	case "", "v0":
		return 0
	case "vMaxU32":
		return 1<<32 - 1
	case "vMaxU64":
		return 1<<64 - 1
	case "vTS":
		return 1700000000123456789
	}
	n, _ := strconv.ParseUint(strings.TrimPrefix(t, "v"), 10, 64)
	return n
}

// tokBytes: "b<len>[#id]" -> deterministic bytes; strings (names) are ASCII.
func tokBytes(t string) []byte {
	if t == "" || t == "b0" {
		return nil
	}
	// b<N>#name: N pseudo-random letters; z<N>#name: N zero bytes (compresses 1:1000); N may end in M (MiB, plus 5)
	spec := strings.SplitN(t, "#", 2)[0]
	zero := strings.HasPrefix(spec, "z")
	spec = strings.TrimLeft(spec, "bz")
	n := 0
	if strings.HasSuffix(spec, "M") {
		m, _ := strconv.Atoi(strings.TrimSuffix(spec, "M"))
		n = m<<20 + 5
	} else {
		n, _ = strconv.Atoi(spec)
	}
	b := make([]byte, n)
	if zero {
		return b
	}
	h := fnv.New64a()
	h.Write([]byte(t))
	rng := rand.New(rand.NewSource(int64(h.Sum64())))
	for i := range b {
		b[i] = byte('a' + rng.Intn(26))
	}
	return b
}

func putVarint(b []byte, v uint64) []byte {
	var tmp [10]byte
	n := binary.PutUvarint(tmp[:], v)
	return append(b, tmp[:n]...)
}

var wtNum = map[string]uint64{"varint": 0, "fix64": 1, "len": 2, "group": 3, "fix32": 5, "varintcut": 0, "fix64cut": 1, "lencut": 2, "fix32cut": 5}

// encodeTree writes fields in exactly the given order.
func encodeTree(fs []wField) []byte {
	var b []byte
	for _, f := range fs {
		b = putVarint(b, uint64(f.N)<<3|wtNum[f.WT])
		switch f.WT {
		case "varint":
			b = putVarint(b, tokNum(f.V))
		case "fix64":
			var t [8]byte
			binary.LittleEndian.PutUint64(t[:], tokNum(f.V))
			b = append(b, t[:]...)
		case "fix32":
			var t [4]byte
			binary.LittleEndian.PutUint32(t[:], uint32(tokNum(f.V)))
			b = append(b, t[:]...)
		case "len":
			var p []byte
			if f.Msg {
				p = encodeTree(f.Sub)
			} else {
				p = tokBytes(f.V)
			}
			b = putVarint(b, uint64(len(p)))
			b = append(b, p...)
		case "group":
			// a start-group tag without content
		case "fix64cut", "fix32cut":
			// a fixed-width field of which only the first K bytes are there
			k, _ := strconv.Atoi(strings.TrimPrefix(f.V, "c"))
			b = append(b, bytes.Repeat([]byte{0x11}, k)...)
		case "varintcut":
			// K bytes of a varint, every one announcing a further byte
			k, _ := strconv.Atoi(strings.TrimPrefix(f.V, "c"))
			b = append(b, bytes.Repeat([]byte{0x81}, k)...)
		case "lencut":
			// a length of 5 followed by K < 5 bytes
			k, _ := strconv.Atoi(strings.TrimPrefix(f.V, "c"))
			b = append(b, 5)
			b = append(b, bytes.Repeat([]byte{'x'}, k)...)
		}
	}
	return b
}

type realKV struct {
	Key, Val []byte
	TS       uint64
	Flags    uint64
}
type realDBI struct {
	Name, Transform string
	Flags           uint64
	Entries         []realKV
}
type realContent struct {
	Fmt, Compat         uint64
	Gen, Inst, Host, DB string
	Txn, From           int64
	TS                  uint64
	DBIs                []realDBI
}

func (c realContent) String() string {
	var sb strings.Builder
	fmt.Fprintf(&sb, "fmt=%d compat=%d meta{%q %q %q %d %d %q %d}", c.Fmt, c.Compat, c.Gen, c.Inst, c.Host, c.Txn, c.TS, c.DB, c.From)
	for _, d := range c.DBIs {
		fmt.Fprintf(&sb, " dbi{%q fl=%d tr=%q", short(d.Name), d.Flags, d.Transform)
		for _, e := range d.Entries {
			fmt.Fprintf(&sb, " kv{%s %s ts=%d fl=%d}", short(string(e.Key)), short(string(e.Val)), e.TS, e.Flags)
		}
		sb.WriteString("}")
	}
	return sb.String()
}

func short(s string) string {
	if len(s) <= 12 {
		return s
	}
	h := fnv.New32a()
	h.Write([]byte(s))
	return fmt.Sprintf("%s..[%d:%x]", s[:6], len(s), h.Sum32())
}

func wantContent(w wContent) realContent {
	c := realContent{Fmt: tokNum(w.Fmt), Compat: tokNum(w.Compat), Gen: string(tokBytes(w.Meta.Gen)), Inst: string(tokBytes(w.Meta.Inst)),
		Host: string(tokBytes(w.Meta.Host)), DB: string(tokBytes(w.Meta.DB)), Txn: int64(tokNum(w.Meta.Txn)), From: int64(tokNum(w.Meta.From)), TS: tokNum(w.Meta.TS)}
	for _, d := range w.DBIs {
		rd := realDBI{Name: string(tokBytes(d.Name)), Transform: string(tokBytes(d.Transform)), Flags: tokNum(d.Flags)}
		for _, e := range d.Entries {
			rd.Entries = append(rd.Entries, realKV{tokBytes(e.Key), tokBytes(e.Val), tokNum(e.TS), tokNum(e.Flags)})
		}
		c.DBIs = append(c.DBIs, rd)
	}
	return c
}

// customDecode runs the hand-written decoder (Unmarshal + full iteration).
func customDecode(pb []byte) (c realContent, err error) {
	var s snapshot.Snapshot
	if err = s.Unmarshal(pb); err != nil {
		return
	}
	return contentOf(&s)
}

func contentOf(s *snapshot.Snapshot) (c realContent, err error) {
	c = realContent{Fmt: uint64(s.FormatVersion), Compat: uint64(s.CompatVersion), Gen: s.Meta.GenerationID, Inst: s.Meta.InstanceID,
		Host: s.Meta.Hostname, DB: s.Meta.DatabaseName, Txn: s.Meta.LmdbTxnID, From: s.Meta.FromLmdbTxnID, TS: s.Meta.TimestampNano}
	for _, d := range s.Databases {
		rd := realDBI{Name: d.Name(), Transform: d.Transform(), Flags: d.Flags()}
		d.ResetCursor()
		for {
			kv, e := d.Next()
			if e == io.EOF {
				break
			}
			if e != nil {
				return c, e
			}
			rd.Entries = append(rd.Entries, realKV{append([]byte(nil), kv.Key...), append([]byte(nil), kv.Value...), kv.TimestampNano, uint64(kv.Flags)})
		}
		c.DBIs = append(c.DBIs, rd)
	}
	return c, nil
}

// referenceDecode runs the generated (gogo) codec of the published schema.
func referenceDecode(pb []byte) (c realContent, err error) {
	var s gogosnapshot.Snapshot
	if err = s.Unmarshal(pb); err != nil {
		return
	}
	c = realContent{Fmt: uint64(s.FormatVersion), Compat: uint64(s.CompatVersion), Gen: s.Meta.GenerationID, Inst: s.Meta.InstanceID,
		Host: s.Meta.Hostname, DB: s.Meta.DatabaseName, Txn: s.Meta.LmdbTxnID, From: s.Meta.FromLmdbTxnID, TS: s.Meta.TimestampNano}
	for _, d := range s.Databases {
		rd := realDBI{Name: d.Name, Transform: d.Transform, Flags: d.Flags}
		for _, e := range d.Entries {
			rd.Entries = append(rd.Entries, realKV{e.Key, e.Value, e.TimestampNano, uint64(e.Flags)})
		}
		c.DBIs = append(c.DBIs, rd)
	}
	return c, nil
}

// buildSnapshot constructs a Snapshot through the public API from content.
func buildSnapshot(c realContent, sizeHint int) *snapshot.Snapshot {
	s := &snapshot.Snapshot{FormatVersion: uint32(c.Fmt), CompatVersion: uint32(c.Compat)}
	s.Meta = snapshot.Meta{GenerationID: c.Gen, InstanceID: c.Inst, Hostname: c.Host, DatabaseName: c.DB, LmdbTxnID: c.Txn, FromLmdbTxnID: c.From, TimestampNano: c.TS}
	for _, d := range c.DBIs {
		var m *snapshot.DBI
		if sizeHint < 0 {
			m = snapshot.NewDBI()
		} else {
			m = snapshot.NewDBISize(sizeHint)
		}
		m.SetName(d.Name)
		m.SetFlags(d.Flags)
		m.SetTransform(d.Transform)
		for _, e := range d.Entries {
			m.Append(snapshot.KV{Key: e.Key, Value: e.Val, TimestampNano: e.TS, Flags: uint32(e.Flags)})
		}
		s.Databases = append(s.Databases, m)
	}
	return s
}

func safely(f func() error) (err error, panicked interface{}) {
	defer func() {
		if r := recover(); r != nil {
			panicked = r
		}
	}()
	return f(), nil
}

func cmdC07(args []string) error {
	var rows []wRow
	if err := ReadJSON(filepath.Join(args[0], "wire_rows.json"), &rows); err != nil {
		return err
	}
	tierName := "quick"
	if len(args) > 1 {
		tierName = args[1]
	}
	R := NewResult()
	sig := func(class string) map[string]interface{} {
		return map[string]interface{}{"prop": "C07", "class": class}
	}
	seen := map[string]bool{}
	for _, row := range rows {
		pb := encodeTree(row.Tree)
		want := wantContent(row.Want)
		R.Evaluations++
		// the reference codec must agree with the specification (otherwise the specification is wrong)
		ref, rerr := referenceDecode(pb)
		if rerr != nil || ref.String() != want.String() {
			R.Bad(row.Tree, sig("spec-vs-reference"), "reference codec yields %v (%v), specification %v", ref, rerr, want)
			continue
		}
		var got realContent
		err, p := safely(func() error { var e error; got, e = customDecode(pb); return e })
		if p != nil {
			R.Bad(row.Tree, sig("decode-panic"), "custom decoder panics on a valid message: %v", p)
			continue
		}
		if err != nil {
			R.Bad(row.Tree, sig("decode-error"), "custom decoder rejects a valid message of the schema: %v (content %v)", err, want)
			continue
		}
		if got.String() != want.String() {
			R.Bad(row.Tree, sig("decode-differs"), "custom decoder yields %v, a standard implementation %v", got, want)
			continue
		}
		// encode direction: the same content written by the hand-written encoder
		key := want.String()
		if seen[key] {
			continue
		}
		seen[key] = true
		R.Distinct++
		for _, hint := range []int{-1, 0, 64, 1 << 16} {
			if hint == -1 && tierName == "quick" && len(seen) > 6 {
				continue // NewDBI() allocates 10 MB per DBI
			}
			var out bytes.Buffer
			var snap *snapshot.Snapshot
			err, p := safely(func() error {
				snap = buildSnapshot(want, hint)
				_, e := snap.WriteTo(&out)
				return e
			})
			if p != nil || err != nil {
				R.Bad(row.Tree, sig("encode-fails"), "encoding %v fails (size hint %d): %v %v", want, hint, err, p)
				continue
			}
			ref2, rerr := referenceDecode(out.Bytes())
			if rerr != nil || ref2.String() != want.String() {
				R.Bad(row.Tree, sig("encode-differs"), "bytes written by the custom encoder decode (reference codec) to %v (%v), content was %v", ref2, rerr, want)
			}
			// LoadData(DumpData(x)) = x
			blob, _, derr := snapshot.DumpData(snap)
			if derr != nil {
				R.Bad(row.Tree, sig("encode-fails"), "DumpData: %v", derr)
				continue
			}
			back, lerr := snapshot.LoadData(blob)
			if lerr != nil {
				R.Bad(row.Tree, sig("roundtrip"), "LoadData(DumpData(x)) fails: %v", lerr)
				continue
			}
			bc, berr := contentOf(back)
			if berr != nil || bc.String() != want.String() {
				R.Bad(row.Tree, sig("roundtrip"), "LoadData(DumpData(x)) = %v (%v), x = %v", bc, berr, want)
			}
		}
	}
	if len(rows) > 0 {
		R.Sample(rows[len(rows)/2].Tree)
	}
	// buffer growth boundaries of DBI.Append: exact fills around a pre-allocated size
	growth := []int{0, 1, 7, 8, 15, 16, 31, 32, 33, 63, 64, 100, 127, 128, 129, 255, 256, 1000}
	if tierName == "thorough" {
		for i := 0; i < 300; i++ {
			growth = append(growth, i)
		}
	}
	for _, hint := range growth {
		for _, klen := range []int{1, 2, 3, 5} {
			for _, vlen := range []int{0, 1, 2, 7, 120, 127, 128} {
				var want realContent
				want.Fmt = 3
				d := realDBI{Name: "n"}
				for i := 0; i < 3; i++ {
					d.Entries = append(d.Entries, realKV{bytes.Repeat([]byte{byte('a' + i)}, klen), bytes.Repeat([]byte{'v'}, vlen), uint64(i), 0})
				}
				want.DBIs = []realDBI{d}
				var out bytes.Buffer
				err, p := safely(func() error { _, e := buildSnapshot(want, hint).WriteTo(&out); return e })
				R.Evaluations++
				if p != nil || err != nil {
					R.Bad(map[string]int{"hint": hint, "klen": klen, "vlen": vlen}, sig("encode-fails"), "Append with %d bytes pre-allocated, key %d, value %d bytes: %v %v", hint, klen, vlen, err, p)
					continue
				}
				ref, rerr := referenceDecode(out.Bytes())
				if rerr != nil || ref.String() != want.String() {
					R.Bad(map[string]int{"hint": hint, "klen": klen, "vlen": vlen}, sig("encode-differs"), "growth boundary: reference decodes %v (%v), content %v", ref, rerr, want)
				}
			}
		}
	}
	R.Counters["rows"] = len(rows)
	return Emit(R)
}

// ---------------------------------------------------------------- C08

func gz(pb []byte) []byte {
	var b bytes.Buffer
	w := gzip.NewWriter(&b)
	w.Write(pb)
	w.Close()
	return b.Bytes()
}

type hostileOutcome struct {
	err      error
	panicked interface{}
	hung     bool
	alloc    uint64
}

// feed runs LoadData + full iteration under a watchdog.
func feed(blob []byte) hostileOutcome {
	done := make(chan hostileOutcome, 1)
	go func() {
		var o hostileOutcome
		var m0, m1 runtime.MemStats
		runtime.ReadMemStats(&m0)
		o.err, o.panicked = safely(func() error {
			s, err := snapshot.LoadData(blob)
			if err != nil {
				return err
			}
			_, err = contentOf(s)
			return err
		})
		runtime.ReadMemStats(&m1)
		o.alloc = m1.TotalAlloc - m0.TotalAlloc
		done <- o
	}()
	select {
	case o := <-done:
		return o
	case <-time.After(10 * time.Second):
		return hostileOutcome{hung: true}
	}
}

func cmdC08(args []string) error {
	var rows []wRow
	var hrows []wRow
	if err := ReadJSON(filepath.Join(args[0], "wire_rows.json"), &rows); err != nil {
		return err
	}
	if err := ReadJSON(filepath.Join(args[0], "wire_hostile_rows.json"), &hrows); err != nil {
		return err
	}
	tierName := "quick"
	if len(args) > 1 {
		tierName = args[1]
	}
	R := NewResult()
	rng := Rng()
	sig := func(class string) map[string]interface{} {
		return map[string]interface{}{"prop": "C08", "class": class}
	}
	hung := false
	check := func(desc interface{}, pb []byte, mustErr bool) {
		if hung {
			return
		}
		blob := gz(pb)
		o := feed(blob)
		R.Evaluations++
		switch {
		case o.hung:
			hung = true
			R.Bad(desc, sig("hang"), "decoding does not terminate within 10 s (%d-byte message)", len(pb))
		case o.panicked != nil:
			R.Bad(desc, sig("panic"), "decoding panics: %v", o.panicked)
		case mustErr && o.err == nil:
			R.Bad(desc, sig("accepted"), "a malformed message was decoded without error")
		case o.alloc > 96<<20+uint64(200*len(pb)):
			R.Bad(desc, sig("memory"), "decoding a %d-byte message allocated %d bytes", len(pb), o.alloc)
		}
	}
	// structurally hostile messages of the specification
	for _, r := range hrows {
		check(r.Tree, encodeTree(r.Tree), true)
		R.Distinct++
	}
	// a truncated last field at every nesting level, enclosing lengths consistent (Wire.tla, Truncated): whether
	// such a message is refused or read as far as it goes is the decoder's choice - it must not crash, hang or balloon
	var trows []wRow
	if err := ReadJSON(filepath.Join(args[0], "wire_truncated_rows.json"), &trows); err != nil {
		return err
	}
	for _, r := range trows {
		check(r.Tree, encodeTree(r.Tree), false)
		R.Distinct++
	}
	R.Count("truncated_field_messages", len(trows))
	// small valid messages to corrupt
	var bases [][]byte
	for _, r := range rows {
		pb := encodeTree(r.Tree)
		if len(pb) < 700 && len(pb) > 20 {
			bases = append(bases, pb)
		}
		if len(bases) >= 12 {
			break
		}
	}
	if len(bases) == 0 {
		// all rows carry large payloads: build a compact message by hand
	}
	small := encodeTree([]wField{{N: 1, WT: "varint", V: "v3"}, {N: 9, WT: "len", V: "b2#u0"}, {N: 2, WT: "len", Msg: true, Sub: []wField{{N: 2, WT: "len", V: "b3#i"}, {N: 9, WT: "len", V: "b2#u1"}, {N: 5, WT: "fix64", V: "vTS"}}},
		{N: 3, WT: "len", Msg: true, Sub: []wField{{N: 1, WT: "len", V: "b4#n"}, {N: 9, WT: "len", V: "b2#u2"}, {N: 3, WT: "varint", V: "v8"},
			{N: 2, WT: "len", Msg: true, Sub: []wField{{N: 1, WT: "len", V: "b2#k"}, {N: 9, WT: "len", V: "b2#u3"}, {N: 2, WT: "len", V: "b5#v"}, {N: 3, WT: "fix64", V: "vTS"}, {N: 4, WT: "varint", V: "v1"}}},
			{N: 2, WT: "len", Msg: true, Sub: []wField{{N: 1, WT: "len", V: "b3#k2"}, {N: 3, WT: "fix64", V: "v9"}}},
			{N: 4, WT: "len", V: "b3#t"}}}})
	bases = append([][]byte{small}, bases...)
	hugeLens := []uint64{1 << 31, 1<<31 - 1, 1 << 32, 1 << 62, 1<<63 - 1, 1<<63 - 2, 1<<63 - 9, 1<<63 - 40, 1<<63 - 300, 1 << 63, 1<<63 + 1, 1<<64 - 1, 1<<64 - 8}
	nb := 3
	if tierName == "thorough" {
		nb = len(bases)
	}
	for bi, pb := range bases[:nb] {
		// truncation at every byte
		for cut := 0; cut < len(pb); cut++ {
			check(map[string]int{"base": bi, "truncate_at": cut}, pb[:cut], false)
		}
		// every byte replaced by hostile values (length / tag bytes included)
		for pos := 0; pos < len(pb); pos++ {
			for _, v := range []byte{0x00, 0x7f, 0x80, 0xff, pb[pos] ^ 0x07, pb[pos] + 1} {
				m := append([]byte(nil), pb...)
				m[pos] = v
				check(map[string]int{"base": bi, "pos": pos, "byte": int(v)}, m, false)
			}
		}
		// every byte position: splice in a length / varint of adversarial size
		for pos := 0; pos < len(pb); pos++ {
			for _, hl := range hugeLens {
				m := append([]byte(nil), pb[:pos]...)
				m = putVarint(m, hl)
				m = append(m, pb[pos+1:]...)
				check(map[string]interface{}{"base": bi, "pos": pos, "varint": hl}, m, false)
			}
		}
		R.Distinct += 3 * len(pb)
	}
	// raw garbage: random bytes, random bytes in a gzip container, truncated gzip, bit flips of the compressed blob
	nr := 3000
	if tierName == "thorough" {
		nr = 30000
	}
	for i := 0; i < nr && !hung; i++ {
		n := rng.Intn(200)
		b := make([]byte, n)
		rng.Read(b)
		check(map[string]interface{}{"random_bytes": n, "i": i}, b, false)
		blob := gz(small)
		switch i % 3 {
		case 0:
			blob = blob[:rng.Intn(len(blob))]
		case 1:
			blob[rng.Intn(len(blob))] ^= 1 << uint(rng.Intn(8))
		case 2:
			blob = b
		}
		o := feed(blob)
		R.Evaluations++
		if o.hung || o.panicked != nil {
			R.Bad(map[string]interface{}{"corrupt_container": i % 3}, sig("container"), "corrupt container: hung=%v panic=%v", o.hung, o.panicked)
			if o.hung {
				hung = true
			}
		}
	}
	R.Sample(map[string]interface{}{"base_message_bytes": len(small), "mutations": "truncation at every byte, 6 byte values at every position, 8 adversarial varints at every position"})
	return Emit(R)
}
