package hx

import (
	"context"
	"fmt"
	"sort"
	"strings"
	"sync"
	"time"

	"github.com/PowerDNS/lightningstream/config"
	"github.com/PowerDNS/lightningstream/snapshot"
	"github.com/PowerDNS/lightningstream/syncer/cleaner"
	"github.com/PowerDNS/simpleblob/backends/memory"
	"github.com/sirupsen/logrus"
)

func init() { Commands["cleaner"] = cmdCleaner }

type clAct struct {
	Name      string  `json:"name"`
	I         int     `json:"i"`
	TS        int     `json:"ts"`
	ListFails bool    `json:"listFails"`
	Failing   [][]int `json:"failing"`
	Deleted   [][]int `json:"deleted"`
}
type clStep struct {
	Act   clAct   `json:"act"`
	Files [][]int `json:"files"`
	Now   int     `json:"now"`
}
type clInput struct {
	MustKeep   int        `json:"mustKeep"`
	RemoveOld  int        `json:"removeOld"`
	Behaviours [][]clStep `json:"behaviours"`
}

var clT0 = time.Date(2024, 1, 1, 0, 0, 0, 0, time.UTC)

// the abstract time unit is concretised as one minute or as 100 ms (several snapshots within one second)
var clUnits = []time.Duration{time.Minute, 100 * time.Millisecond}

func clTimeU(t int, u time.Duration) time.Time { return clT0.Add(time.Duration(t) * u) }
func clName(db string, inst, ts int) string    { return clNameU(db, inst, ts, time.Minute) }
func clNameU(db string, inst, ts int, u time.Duration) string {
	ni := snapshot.NameInfo{Kind: snapshot.KindSnapshot, Extension: snapshot.DefaultExtension, SyncerName: db,
		InstanceID: fmt.Sprintf("i%d", inst), GenerationID: "GX", Timestamp: clTimeU(ts, u)}
	return ni.BuildName()
}

func cmdCleaner(args []string) error {
	var in clInput
	if err := ReadJSON(args[0], &in); err != nil {
		return err
	}
	R := NewResult()
	ParallelFor(len(in.Behaviours), 8, func(bi int) {
		replayCleaner(R, in, in.Behaviours[bi], bi)
		R.Add(0, 0, 1)
	})
	return Emit(R)
}

var otherKindOnce sync.Once

func replayCleaner(R *Result, in clInput, beh []clStep, bi int) {
	ctx := context.Background()
	clUnit := clUnits[bi%len(clUnits)]
	clTime := func(t int) time.Time { return clTimeU(t, clUnit) }
	clName := func(db string, inst, ts int) string { return clNameU(db, inst, ts, clUnit) }
	fb := &faultBucket{Interface: memory.New(), loadGate: map[string]chan struct{}{}, failDelete: map[string]bool{}}
	conf := config.Cleanup{Enabled: true, Interval: time.Hour, MustKeepInterval: time.Duration(in.MustKeep) * clUnit,
		RemoveOldInstancesInterval: time.Duration(in.RemoveOld) * clUnit}
	l := logrus.New()
	l.SetLevel(logrus.PanicLevel)
	w := cleaner.New("default", fb, conf, l)
	// files the cleaner must never touch: other databases (one whose name has ours as a prefix),
	// unparsable names, other kinds of files
	foreign := []string{
		clName("default2", 1, 1), clName("default2", 1, 2), clName("default2", 1, 3), clName("default2", 2, 1),
		clName("other", 1, 1), clName("other", 1, 2),
		"default__garbage", "default__i1__notatimestamp__GX.pb.gz", "default__i1__20240101-000100-000000000.pb.gz",
		"README.txt", "default__i1__20240101-000100-000000000__GX.unknownext",
	}
	// files of our own database and instances that are of another registered kind (an extension registered through
	// snapshot.RegisterExtension): not snapshots - never deleted, never counted as an instance's newest snapshot
	otherKindOnce.Do(func() { snapshot.RegisterExtension("journal.gz", "journal") })
	for _, it := range [][2]int{{1, 1}, {1, 2}, {1, 40}, {2, 1}, {2, 40}, {3, 40}} {
		ni := snapshot.NameInfo{Kind: "journal", Extension: "journal.gz", SyncerName: "default",
			InstanceID: fmt.Sprintf("i%d", it[0]), GenerationID: "GX", Timestamp: clTime(it[1])}
		foreign = append(foreign, ni.BuildName())
	}
	for _, f := range foreign {
		_ = fb.Interface.Store(ctx, f, []byte("x"))
	}
	lastLoaded := map[string]time.Time{} // the syncer's long-lived map (Syncer.lastByInstance)
	bad := func(class string, si int, format string, a ...interface{}) {
		sig := map[string]interface{}{"prop": "C12", "class": class}
		R.Bad(map[string]interface{}{"behaviour": beh[:si+1], "mustKeep": in.MustKeep, "removeOld": in.RemoveOld}, sig,
			"step %d (%s): "+format, append([]interface{}{si, beh[si].Act.Name}, a...)...)
	}
	for si, st := range beh {
		a := st.Act
		R.Add(1, 0, 0)
		switch a.Name {
		case "init", "tick":
		case "publish":
			_ = fb.Interface.Store(ctx, clName("default", a.I, a.TS), []byte("snap"))
		case "merge":
			lastLoaded[fmt.Sprintf("i%d", a.I)] = clTime(a.TS)
		case "commit":
			w.SetCommitted(lastLoaded)
		case "run":
			fb.mu.Lock()
			fb.failList = a.ListFails
			fb.failDelete = map[string]bool{}
			for _, f := range a.Failing {
				fb.failDelete[clName("default", f[0], f[1])] = true
			}
			fb.deleted = nil
			fb.mu.Unlock()
			err := w.RunOnce(ctx, clTime(st.Now))
			if a.ListFails != (err != nil) {
				bad("run-error", si, "RunOnce returned %v, listing failure injected: %v", err, a.ListFails)
			}
			fb.mu.Lock()
			fb.failList = false
			deleted := append([]string(nil), fb.deleted...)
			fb.mu.Unlock()
			for _, d := range deleted {
				ni, perr := snapshot.ParseName(d)
				if perr != nil || ni.SyncerName != "default" || !strings.HasPrefix(d, "default__") {
					bad("deleted-foreign", si, "the cleaner deleted %q, which is not a snapshot of its database", d)
				}
			}
		}
		// bucket content against the specification
		ls, _ := fb.Interface.List(ctx, "")
		have := map[string]bool{}
		for _, b := range ls {
			have[b.Name] = true
		}
		for _, f := range foreign {
			if !have[f] {
				bad("deleted-foreign", si, "foreign file %q disappeared", f)
			}
			delete(have, f)
		}
		want := map[string]bool{}
		for _, f := range st.Files {
			want[clName("default", f[0], f[1])] = true
		}
		if fmt.Sprint(keysOf(have)) != fmt.Sprint(keysOf(want)) {
			cls := "files-differ"
			for k := range want {
				if !have[k] {
					cls = "wrongful-deletion"
				}
			}
			bad(cls, si, "bucket holds %v, specification %v", keysOf(have), keysOf(want))
			return
		}
	}
	if len(beh) > 4 {
		R.Add(0, 1, 0)
	}
	if bi%701 == 5 {
		var acts []string
		for _, s := range beh {
			acts = append(acts, fmt.Sprintf("%s(%d,%d)", s.Act.Name, s.Act.I, s.Act.TS))
		}
		R.Sample(acts)
	}
}

func keysOf(m map[string]bool) []string {
	var out []string
	for k := range m {
		out = append(out, k)
	}
	sort.Strings(out)
	return out
}

func init() { Commands["cleaner-run"] = cmdCleanerRun }

// cmdCleanerRun: the cleaner driven through Worker.Run (as the sync loop does): a listing that fails - with a plain
// error or with a backend request timeout - does not end the cleaning for good: superseded snapshots that have
// passed the keep interval are removed by a later run, and Run returns only when its context is cancelled.
func cmdCleanerRun(args []string) error {
	R := NewResult()
	for sc := 0; sc < 3; sc++ {
		ctx, cancel := context.WithCancel(context.Background())
		fb := &faultBucket{Interface: memory.New(), loadGate: map[string]chan struct{}{}, failDelete: map[string]bool{}}
		switch sc {
		case 1:
			fb.failListErrs = []error{errInjected, errInjected}
		case 2:
			fb.failListErrs = []error{fmt.Errorf("injected storage failure: request timed out: %w", context.DeadlineExceeded)}
		}
		now := time.Now()
		var names []string
		for i := 0; i < 3; i++ {
			ni := snapshot.NameInfo{Kind: snapshot.KindSnapshot, Extension: snapshot.DefaultExtension, SyncerName: "default", InstanceID: "i1",
				GenerationID: "GX", Timestamp: now.Add(time.Duration(i-10) * time.Minute)}
			names = append(names, ni.BuildName())
			_ = fb.Interface.Store(ctx, ni.BuildName(), []byte("snap"))
		}
		l := logrus.New()
		l.SetLevel(logrus.PanicLevel)
		w := cleaner.New("default", fb, config.Cleanup{Enabled: true, Interval: 5 * time.Millisecond, MustKeepInterval: 20 * time.Millisecond,
			RemoveOldInstancesInterval: time.Hour}, l)
		done := make(chan error, 1)
		go func() { done <- w.Run(ctx) }()
		cleaned := false
		returnedEarly := false
		deadline := time.Now().Add(3 * time.Second)
		for time.Now().Before(deadline) && !cleaned && !returnedEarly {
			select {
			case <-done:
				returnedEarly = true
			case <-time.After(10 * time.Millisecond):
			}
			ls, _ := fb.Interface.List(context.Background(), "")
			cleaned = len(ls) == 1
		}
		R.Add(1, 1, 1)
		sig := map[string]interface{}{"prop": "C12", "class": "cleaner-run", "scenario": sc}
		if returnedEarly {
			R.Bad(sc, sig, "cleaner.Run returned although its context is alive (listing failures: %d)", sc)
		} else if !cleaned {
			ls, _ := fb.Interface.List(context.Background(), "")
			R.Bad(sc, sig, "superseded snapshots were not removed within 3 s by the running cleaner: %v", ls.Names())
		} else if ls, _ := fb.Interface.List(context.Background(), ""); len(ls) != 1 || ls[0].Name != names[2] {
			R.Bad(sc, sig, "the cleaner kept %v, the newest snapshot is %s", ls.Names(), names[2])
		}
		cancel()
		if !returnedEarly {
			select {
			case <-done:
			case <-time.After(3 * time.Second):
				R.Bad(sc, sig, "cleaner.Run did not return after cancellation")
			}
		}
	}
	return Emit(R)
}
