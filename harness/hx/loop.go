package hx

import (
	"bytes"
	"context"
	"errors"
	"fmt"
	"os"
	"strconv"
	"sync"
	"time"

	"github.com/PowerDNS/lightningstream/config"
	"github.com/PowerDNS/lightningstream/lmdbenv"
	"github.com/PowerDNS/lightningstream/lmdbenv/header"
	"github.com/PowerDNS/lightningstream/snapshot"
	"github.com/PowerDNS/lightningstream/syncer"
	"github.com/PowerDNS/lightningstream/syncer/hooks"
	"github.com/PowerDNS/lightningstream/syncer/receiver"
	"github.com/PowerDNS/lmdb-go/lmdb"
	"github.com/PowerDNS/simpleblob"
	"github.com/PowerDNS/simpleblob/backends/memory"
	"github.com/c2h5oh/datasize"
)

func init() {
	Commands["loop"] = cmdLoop
	syncer.VerifYield = dispatchYield
}

// ---- scheduler gate: the loop goroutine parks at every yield point

type parkEvent struct {
	Point string
	Args  []interface{}
	Exit  bool
	Err   error
}

type gate struct {
	parked chan parkEvent
	resume chan string // "go" | "crash"
}

var (
	gatesMu   sync.Mutex
	gates     = map[*syncer.Syncer]*gate{}
	recorders = map[*syncer.Syncer]*fleetRecorder{}
)

func dispatchYield(s *syncer.Syncer, point string, args ...interface{}) {
	gatesMu.Lock()
	g := gates[s]
	rec := recorders[s]
	gatesMu.Unlock()
	if g == nil {
		if rec != nil {
			rec.onYield(point, args)
		}
		return
	}
	g.parked <- parkEvent{Point: point, Args: args}
	if cmd := <-g.resume; cmd == "crash" {
		panic(crashSignal{})
	}
}

type crashSignal struct{}

// ---- bucket wrapper: store failures, gated loads, list counter

type faultBucket struct {
	simpleblob.Interface
	mu           sync.Mutex
	failStores   int
	failKinds    int
	stores       int
	lists        int
	loadGate     map[string]chan struct{} // name -> closed when the load may proceed
	stored       []string
	failList     bool
	failListErrs []error // errors returned by the next List calls, one each
	failDelete   map[string]bool
	deleted      []string
	failLoads    map[string]int // name -> number of Load calls that fail first (transient download errors)
}

func (b *faultBucket) Delete(ctx context.Context, name string) error {
	b.mu.Lock()
	if b.failDelete[name] {
		b.mu.Unlock()
		return errInjected
	}
	b.deleted = append(b.deleted, name)
	b.mu.Unlock()
	return b.Interface.Delete(ctx, name)
}

var errInjected = errors.New("injected storage failure")

func (b *faultBucket) Store(ctx context.Context, name string, data []byte) error {
	b.mu.Lock()
	if b.failStores > 0 {
		b.failStores--
		b.failKinds++
		k := b.failKinds
		b.mu.Unlock()
		if k%2 == 0 { // a request timeout of the storage backend (not the caller's context)
			return fmt.Errorf("injected storage failure: request timed out: %w", context.DeadlineExceeded)
		}
		return errInjected
	}
	b.stores++
	b.stored = append(b.stored, name)
	b.mu.Unlock()
	return b.Interface.Store(ctx, name, data)
}

func (b *faultBucket) List(ctx context.Context, prefix string) (simpleblob.BlobList, error) {
	b.mu.Lock()
	fl := b.failList
	var once error
	if len(b.failListErrs) > 0 {
		once, b.failListErrs = b.failListErrs[0], b.failListErrs[1:]
	}
	b.mu.Unlock()
	if once != nil {
		return nil, once
	}
	if fl {
		return nil, errInjected
	}
	l, err := b.Interface.List(ctx, prefix)
	b.mu.Lock()
	b.lists++
	b.mu.Unlock()
	return l, err
}

func (b *faultBucket) Load(ctx context.Context, name string) ([]byte, error) {
	b.mu.Lock()
	ch := b.loadGate[name]
	b.mu.Unlock()
	if ch != nil {
		select {
		case <-ch:
		case <-ctx.Done():
			return nil, ctx.Err()
		}
	}
	b.mu.Lock()
	if b.failLoads[name] > 0 {
		b.failLoads[name]--
		b.failKinds++
		k := b.failKinds
		b.mu.Unlock()
		if k%2 == 0 { // a transient "not found" of an eventually consistent backend
			return nil, fmt.Errorf("injected storage failure: %w", os.ErrNotExist)
		}
		return nil, errInjected
	}
	b.mu.Unlock()
	return b.Interface.Load(ctx, name)
}

// ---- input

type loopAct struct {
	Name       string         `json:"name"`
	To         string         `json:"to"`
	W          int            `json:"w"`
	LC         bool           `json:"lc"`
	Txn        int            `json:"txn"`
	LastSynced int            `json:"lastSynced"`
	Info       int            `json:"info"`
	Fails      int            `json:"fails"`
	Got        bool           `json:"got"`
	K          int            `json:"k"`
	V          int            `json:"v"`
	Window     bool           `json:"window"`
	At         string         `json:"at"`
	Wipe       bool           `json:"wipe"`
	Start      string         `json:"start"`
	Other      bool           `json:"other"`
	NoDBI      bool           `json:"nodbi"`
	Img        map[string]Ver `json:"img"`
}

type loopStep struct {
	Act        loopAct        `json:"act"`
	Main       map[string]int `json:"main"`
	Store      map[string]Ver `json:"store"`
	LastTxn    int            `json:"lastTxn"`
	Clock      int            `json:"clock"`
	PC         string         `json:"pc"`
	LastSynced int            `json:"lastSynced"`
	WaitingOwn bool           `json:"waitingOwn"`
	WaitingOth bool           `json:"waitingOther"`
	TListing   bool           `json:"tListing"`
	TStore     bool           `json:"tStore"`
	TPass      bool           `json:"tPass"`
	Uncaptured []int          `json:"uncaptured"`
	NBucket    int            `json:"nbucket"`
	CommittedN int            `json:"committedN"`
	NewestImg  map[string]Ver `json:"newestImg"`
	NewestTxn  int            `json:"newestTxn"`
}

type loopInput struct {
	Native     bool         `json:"native"`
	NKeys      int          `json:"nkeys"`
	RetryCount int          `json:"retryCount"`
	OnlyOnce   bool         `json:"onlyOnce"`
	Force      bool         `json:"force"` // storage_force_snapshot_interval = 1 h; "interval" steps let it pass
	RecvOnly   bool         `json:"receiveOnly"`
	Behaviours [][]loopStep `json:"behaviours"`
}

// ---- runner

type loopRunner struct {
	in      loopInput
	w       *World
	fb      *faultBucket
	g       *gate
	cancel  context.CancelFunc
	done    chan struct{}
	updates chan snapshot.Update
	recv    *receiver.Receiver
	ownName string
	// application-side history (the harness is the application)
	appLast        map[int]int
	appCommits     []appCommit
	sinceStore     bool
	storedInRun    bool
	ownMerged      bool
	ownExisted     bool
	infoAtCheck    int64
	injected       map[string]bool
	prevNewest     map[string]Ver
	oldSnapName    string
	heldK          int    // key of the held application commit
	heldStampFloor uint64 // wall-clock time just before the held commit was released (0: none pending)
	heldStampKey   int
	forceDue       bool   // the forced-snapshot interval has passed since the last own snapshot
	otherSnapName  string // newest snapshot of the other instance ("remote2") lying in the bucket from the start
	realFuture     uint64
	heldRelease    chan struct{}
	heldDone       chan error
	heldFinish     func()
	injectedTimes  []time.Time // timestamps of the injected remote snapshots, in injection order (= merge order)
	mergedBase     int         // injected snapshots consumed or dropped before the current run
}

// noNetChange: in shadow mode LS finds changes by comparing the application's value with the live value of its
// shadow entry; a commit that deletes a key LS holds no live version of, or that restores the value LS holds, is
// no change for the next capture and gets no version of its own (DESIGN.md s.7).
func noNetChange(shadow Ver, v int) bool {
	if v == -1 {
		return shadow.Absent() || shadow.Del
	}
	return !shadow.Absent() && !shadow.Del && shadow.Val == v
}

type appCommit struct {
	K, V     int
	Txn      int64
	Clock    int  // the specification's clock right after the commit
	PreStart bool // committed before the start-up capture of the current run
	NoVer    bool // a delete of a key LS held no live version of, or a put of the value LS holds: no net change (DESIGN.md s.7)
}

func cmdLoop(args []string) error {
	var in loopInput
	if err := ReadJSON(args[0], &in); err != nil {
		return err
	}
	R := NewResult()
	var firstErr error
	var emu sync.Mutex
	ParallelFor(len(in.Behaviours), 8, func(bi int) {
		if err := runLoopBehaviour(R, in, in.Behaviours[bi], bi); err != nil {
			emu.Lock()
			if firstErr == nil {
				firstErr = fmt.Errorf("behaviour %d: %w", bi, err)
			}
			emu.Unlock()
		}
		R.Add(0, 0, 1)
	})
	if firstErr != nil {
		return firstErr
	}
	return Emit(R)
}

const oneKeyDBI = "data"

// otherInstance is the instance whose snapshot lies in the bucket from the start (the hook's updates come from "remote1").
const otherInstance = "remote2"

func (lr *loopRunner) newSyncer() error {
	in := lr.w.Insts[1]
	c := lr.w.config(in.Name)
	c.StoragePollInterval = time.Hour
	c.StorageRetryCount = lr.in.RetryCount
	c.StorageRetryInterval = time.Millisecond
	c.LMDBPollInterval = time.Millisecond
	c.MemoryDecompressedSnapshots = 3
	c.MemoryDownloadedSnapshots = 3
	c.OnlyOnce = lr.in.OnlyOnce
	if lr.in.Force {
		c.StorageForceSnapshotInterval = time.Hour
	}
	h := hooks.New()
	lr.updates = make(chan snapshot.Update, 8)
	ch := lr.updates
	h.OtherUpdateSource = func() <-chan snapshot.Update { return ch }
	s, err := syncer.New("default", in.Env, lr.fb, c, c.LMDBs["default"], syncer.Options{Hooks: h, ReceiveOnly: lr.in.RecvOnly})
	if err != nil {
		return err
	}
	in.S = s
	lr.ownName = s.VerifInstanceID()
	return nil
}

// start launches Sync and waits for the first park.
func (lr *loopRunner) start() (parkEvent, error) {
	in := lr.w.Insts[1]
	g := &gate{parked: make(chan parkEvent), resume: make(chan string)}
	lr.g = g
	gatesMu.Lock()
	gates[in.S] = g
	gatesMu.Unlock()
	ctx, cancel := context.WithCancel(context.Background())
	lr.cancel = cancel
	lr.done = make(chan struct{})
	s := in.S
	done := lr.done
	lr.storedInRun = false
	lr.ownMerged = false
	go func() {
		defer close(done)
		var err error
		func() {
			defer func() {
				if r := recover(); r != nil {
					if _, ok := r.(crashSignal); ok {
						err = errors.New("crashed")
						return
					}
					panic(r)
				}
			}()
			err = s.Sync(ctx)
		}()
		select {
		case g.parked <- parkEvent{Exit: true, Err: err}:
		case <-time.After(5 * time.Second):
		}
	}()
	return lr.waitPark()
}

func (lr *loopRunner) waitPark() (parkEvent, error) {
	select {
	case ev := <-lr.g.parked:
		return ev, nil
	case <-time.After(20 * time.Second):
		return parkEvent{}, fmt.Errorf("loop did not reach a yield point within 20s")
	}
}

func (lr *loopRunner) stop() {
	if lr.heldRelease != nil { // a behaviour that ends while the application's transaction is open: let it commit
		close(lr.heldRelease)
		lr.heldRelease = nil
		select {
		case <-lr.heldDone:
		case <-time.After(5 * time.Second):
		}
	}
	if lr.cancel != nil {
		lr.cancel()
	}
	if lr.g != nil && lr.done != nil {
		g, done := lr.g, lr.done
	loop:
		for {
			select {
			case g.resume <- "crash": // the goroutine was parked at a yield point
			case ev := <-g.parked:
				if ev.Exit {
					break loop
				}
			case <-done:
				break loop
			case <-time.After(5 * time.Second):
				break loop
			}
		}
		select {
		case <-done:
		case <-time.After(time.Second):
		}
	}
	gatesMu.Lock()
	delete(gates, lr.w.Insts[1].S)
	gatesMu.Unlock()
}

func toInt64(v interface{}) int64 {
	switch x := v.(type) {
	case header.TxnID:
		return int64(x)
	case int64:
		return x
	case int:
		return int64(x)
	case uint64:
		return int64(x)
	}
	return -1
}

func (lr *loopRunner) buildUpdate(img map[string]Ver, instance string, nowTS uint64) snapshot.Update {
	d := snapshot.NewDBISize(512)
	d.SetName(oneKeyDBI)
	for k := 1; k <= lr.in.NKeys; k++ {
		v, ok := img[strconv.Itoa(k)]
		if !ok || v.Absent() {
			continue
		}
		var fl uint32
		if v.Del {
			fl = 1
		}
		ts := lr.realTS(v.TS, nowTS)
		d.Append(snapshot.KV{Key: lr.w.key(k), Value: lr.w.Conc.Val[v.Val], TimestampNano: ts, Flags: fl})
	}
	snap := &snapshot.Snapshot{FormatVersion: snapshot.CurrentFormatVersion, CompatVersion: snapshot.WriteCompatFormatVersion}
	snap.Meta.DatabaseName = "default"
	snap.Meta.InstanceID = instance
	snap.Meta.TimestampNano = nowTS
	snap.Databases = append(snap.Databases, d)
	ni := snapshot.NameInfo{Kind: snapshot.KindSnapshot, Extension: snapshot.DefaultExtension, SyncerName: "default",
		InstanceID: instance, GenerationID: "GX", Timestamp: time.Unix(0, int64(nowTS))}
	ni.FullName = ni.BuildName()
	return snapshot.Update{Snapshot: snap, NameInfo: ni}
}

// realTS maps an abstract timestamp of a remote / pre-existing version to a real one:
// small abstract values are tiny real times (older than everything), 50 is the far future
// (native mode), everything else is "now".
func (lr *loopRunner) realTS(abs int, now uint64) uint64 {
	switch {
	case abs < 10:
		return uint64(abs)
	case abs == 50 && lr.in.Native:
		return lr.realFuture
	default:
		return now
	}
}

func runLoopBehaviour(R *Result, in loopInput, beh []loopStep, bi int) error {
	concs := Concs()
	conc := concs[bi%len(concs)]
	kc := KeyConcs()[0]
	if bi%5 == 4 {
		kc = KeyConcs()[3] // 511-byte keys
	}
	w, err := NewWorld(in.Native, nil, conc, kc, R)
	if err != nil {
		return err
	}
	defer w.Close()
	lr := &loopRunner{in: in, w: w, appLast: map[int]int{}, injected: map[string]bool{}, realFuture: 4000000000000000000}
	lr.fb = &faultBucket{Interface: memory.New(), loadGate: map[string]chan struct{}{}, failKinds: bi % 2}
	if bi%4 == 2 {
		// files under the database's prefix that are not snapshots: they must not make the bucket "have snapshots"
		for _, f := range []string{"default__README", "default__i1__notatimestamp__GX.pb.gz", "default__i9__20240101-000100-000000000__GX.unknownext"} {
			_ = lr.fb.Interface.Store(context.Background(), f, []byte("x"))
		}
	}
	w.Bucket = lr.fb
	// real timestamps used by pre-existing data
	w.tsAbs[1], w.tsAbs[2], w.tsAbs[3], w.tsAbs[4], w.tsAbs[5] = 1, 2, 3, 4, 5
	w.tsAbs[lr.realFuture] = 50
	w.maxReal = 5
	w.DynTS = true // real stamps (LS captures, native application writes) are named by the model's clock
	if err := w.AddInst(1, false); err != nil {
		return err
	}
	defer lr.stop()

	bad := func(prop, class string, si int, extra map[string]interface{}, format string, a ...interface{}) {
		sig := map[string]interface{}{"prop": prop, "class": class, "native": in.Native}
		for k, v := range extra {
			sig[k] = v
		}
		c := map[string]interface{}{"behaviour": beh[:si+1], "conc": conc.Name, "native": in.Native, "step": si}
		R.Bad(c, sig, "step %d (%s %s): "+format, append([]interface{}{si, beh[si].Act.Name, beh[si].Act.To}, a...)...)
	}
	windowUsed := ""

	for si, st := range beh {
		a := st.Act
		R.Add(1, 0, 0)
		now := uint64(time.Now().UnixNano())
		switch a.Name {
		case "init":
			if a.Start == "data" || a.Start == "data+ownsnap" {
				if in.Native {
					err = lr.appWriteNative(1, 1, 3)
				} else {
					err = w.ShadowPut(1, 1, 1)
				}
				lr.appLast[1] = 1
				lr.appCommits = append(lr.appCommits, appCommit{1, 1, 1, 3, true, false})
				lr.sinceStore = true
			}
			if err == nil && (a.Start == "ownsnap" || a.Start == "data+ownsnap") {
				if err = lr.newSyncer(); err != nil {
					return err
				}
				upd := lr.buildUpdate(map[string]Ver{"1": {TS: 4, Val: 2}}, lr.ownName, now-uint64(time.Hour))
				data, _, e := snapshot.DumpData(upd.Snapshot)
				if e != nil {
					return e
				}
				lr.oldSnapName = upd.NameInfo.FullName
				if e := lr.fb.Interface.Store(context.Background(), lr.oldSnapName, data); e != nil {
					return e
				}
				lr.fb.loadGate[lr.oldSnapName] = make(chan struct{})
				lr.ownExisted = true
				lr.prevNewest = map[string]Ver{"1": {TS: 4, Val: 2}}
			}
			if err == nil && a.Other {
				upd := lr.buildUpdate(map[string]Ver{"1": {TS: 5, Val: 1}}, otherInstance, now-uint64(2*time.Hour))
				data, _, e := snapshot.DumpData(upd.Snapshot)
				if e != nil {
					return e
				}
				lr.otherSnapName = upd.NameInfo.FullName
				if e := lr.fb.Interface.Store(context.Background(), lr.otherSnapName, data); e != nil {
					return e
				}
				lr.fb.loadGate[lr.otherSnapName] = make(chan struct{})
				lr.injected["1="+Ver{TS: 5, Val: 1}.String()] = true
			}
			if err != nil {
				return err
			}
			continue
		case "app":
			before := uint64(time.Now().UnixNano())
			// every other behaviour: when the loop is about to take the write lock (LoadOnce / shadow SendOnce), the
			// application already holds it with an open transaction and commits only after the loop has started to
			// wait - the same behaviour in the specification (commit before the LS transaction), another schedule in
			// the code (anything LS sampled before acquiring the lock is stale)
			held := false
			if bi%2 == 1 && lr.heldRelease == nil && lr.done != nil {
				free := map[string]bool{"start.sent": true, "loop.top": true, "loop.next": true, "load.done": true, "check.before": true,
					"send.stored": true, "send.committed": true, "loop.sleep": true}
				for j := si + 1; j < len(beh); j++ {
					n := beh[j].Act
					if n.Name == "inject" || n.Name == "deliverown" || (n.Name == "run" && free[n.To]) {
						continue // nothing here reads or writes the LMDB
					}
					held = n.Name == "run" && (n.To == "load.txnDone" || (n.To == "send.txnDone" && !in.Native))
					break
				}
			}
			var pdbBefore map[string]Ver
			if !in.Native {
				pdbBefore, _, _ = w.Project(1, in.NKeys, st.Clock)
			}
			startedCh := make(chan struct{})
			doCommit := func(hold chan struct{}) error {
				inst := w.Insts[1]
				return inst.Env.Update(func(txn *lmdb.Txn) error {
					dbi, err := txn.OpenDBI(w.DBIName, w.dbiFlags())
					if err != nil {
						return err
					}
					if in.Native {
						ts := uint64(time.Now().UnixNano())
						var fl byte
						var val []byte
						if a.V == -1 {
							fl = 1
						} else {
							val = w.Conc.Val[a.V]
						}
						err = txn.Put(dbi, w.key(a.K), MakeRaw(ts, uint64(txn.ID()), fl, 0, val), 0)
					} else if a.V == -1 {
						err = txn.Del(dbi, w.key(a.K), nil)
					} else {
						err = txn.Put(dbi, w.key(a.K), w.Conc.Val[a.V], 0)
					}
					if hold != nil {
						close(startedCh) // the write lock is held and the change is written
						<-hold
					}
					return err
				})
			}
			finishApp := func() {
				lr.appLast[a.K] = a.V
				_ = before
				lr.appCommits = append(lr.appCommits, appCommit{a.K, a.V, w.lastTxn(1), st.Clock, a.At == "boot" || a.At == "start.listed",
					!in.Native && noNetChange(pdbBefore[strconv.Itoa(a.K)], a.V)})
				lr.sinceStore = true
				if a.Window {
					windowUsed = a.At
				}
			}
			if held {
				lr.heldRelease = make(chan struct{})
				lr.heldDone = make(chan error, 1)
				rel := lr.heldRelease
				go func() { lr.heldDone <- doCommit(rel) }()
				select { // the application's transaction is open now
				case <-startedCh:
				case <-time.After(10 * time.Second):
					return fmt.Errorf("held application transaction did not start")
				}
				lr.heldFinish = finishApp
				lr.heldK = a.K
				R.Count("held_app_commits", 1)
				continue // the state changes when the commit is released during the next step
			}
			if err := doCommit(nil); err != nil {
				return fmt.Errorf("app commit: %w", err)
			}
			// NoVer is computed from the content before the commit in the plain path
			finishApp()
		case "inject":
			upd := lr.buildUpdate(a.Img, "remote1", now)
			if a.NoDBI {
				upd.Snapshot.Databases = nil // an update that holds no DBI at all
			}
			lr.injectedTimes = append(lr.injectedTimes, upd.NameInfo.Timestamp)
			for k, v := range a.Img {
				lr.injected[k+"="+v.String()] = true
			}
			if !in.Native {
				w.tsAbs[now] = st.Clock
				if now > w.maxReal {
					w.maxReal = now
				}
			}
			select {
			case lr.updates <- upd:
			default:
				return fmt.Errorf("update channel full")
			}
		case "deliverown":
			name := lr.oldSnapName
			if n := len(lr.fb.stored); n > 0 {
				name = lr.fb.stored[n-1]
			}
			lr.fb.mu.Lock()
			if bi%3 == 1 { // a transient download error first: the downloader has to try again (Receiver.tla: LoadFails)
				if lr.fb.failLoads == nil {
					lr.fb.failLoads = map[string]int{}
				}
				lr.fb.failLoads[name] = 1 + bi%2
				R.Count("own_snapshot_load_failures_injected", 1)
			}
			if ch := lr.fb.loadGate[name]; ch != nil {
				close(ch)
				delete(lr.fb.loadGate, name)
			}
			lr.fb.mu.Unlock()
			ok := false
			for i := 0; i < 3000 && lr.recv != nil; i++ {
				if _, has := lr.recv.VerifPending()[lr.ownName]; has {
					ok = true
					break
				}
				time.Sleep(time.Millisecond)
			}
			if !ok {
				bad("conformance", "own-not-delivered", si, nil, "the receiver did not deliver the own snapshot %s within 3s", name)
				return nil
			}
		case "interval":
			// the forced-snapshot interval passes: the last own snapshot is now two hours old (the loop is parked)
			if sy := w.Insts[1].S; sy != nil {
				sy.VerifSetLastSnapshotTime(time.Now().Add(-2 * time.Hour))
			}
			lr.forceDue = true
		case "deliverother":
			lr.fb.mu.Lock()
			if ch := lr.fb.loadGate[lr.otherSnapName]; ch != nil {
				close(ch)
				delete(lr.fb.loadGate, lr.otherSnapName)
			}
			lr.fb.mu.Unlock()
			ok := false
			for i := 0; i < 3000 && lr.recv != nil; i++ {
				if _, has := lr.recv.VerifPending()[otherInstance]; has {
					ok = true
					break
				}
				time.Sleep(time.Millisecond)
			}
			if !ok {
				bad("conformance", "other-not-delivered", si, nil, "the receiver did not deliver the other instance's snapshot %s within 3s", lr.otherSnapName)
				return nil
			}
		case "crash":
			if lr.done != nil {
				select {
				case lr.g.resume <- "crash":
				case <-lr.done:
				}
				select { // the exit event, then the end of the goroutine
				case <-lr.g.parked:
				case <-time.After(5 * time.Second):
				}
				<-lr.done
				lr.cancel()
			}
			gatesMu.Lock()
			delete(gates, w.Insts[1].S)
			gatesMu.Unlock()
			lr.done = nil
			lr.recv = nil
			lr.forceDue = false
			lr.mergedBase = len(lr.injectedTimes) // pending injected updates are lost with the process
			for i := range lr.appCommits {
				lr.appCommits[i].PreStart = true // anything not captured yet counts as changed while LS was down
			}
			if a.Wipe {
				old := w.Insts[1]
				old.Env.Close()
				dir, e := makeTempDir()
				if e != nil {
					return e
				}
				env, e := lmdbenv.NewWithOptions(dir, lmdbenv.Options{Create: true, MapSize: 64 * datasize.MB})
				if e != nil {
					return e
				}
				removeDir(old.Dir)
				old.Env, old.Dir = env, dir
				lr.appLast = map[int]int{}
				lr.appCommits = nil
			}
			// gate the newest own snapshot again: it has to be downloaded anew
			lr.fb.mu.Lock()
			name := lr.oldSnapName
			if n := len(lr.fb.stored); n > 0 {
				name = lr.fb.stored[n-1]
			}
			if name != "" {
				lr.fb.loadGate[name] = make(chan struct{})
				lr.ownExisted = true
			}
			if lr.otherSnapName != "" {
				lr.fb.loadGate[lr.otherSnapName] = make(chan struct{})
			}
			lr.fb.mu.Unlock()
			w.Insts[1].S = nil
		case "run":
			var ev parkEvent
			if lr.done == nil { // Boot
				if w.Insts[1].S == nil || st.PC == "start.listed" {
					if err := lr.newSyncer(); err != nil {
						return err
					}
				}
				ev, err = lr.start()
			} else {
				if beh[si-1].PC == "send.infoRead" || (si > 0 && pcBefore(beh, si) == "send.infoRead") {
					lr.fb.mu.Lock()
					lr.fb.failStores = a.Fails
					lr.fb.mu.Unlock()
				}
				select {
				case lr.g.resume <- "go":
				case <-time.After(5 * time.Second):
					return fmt.Errorf("loop goroutine is not parked")
				}
				if lr.heldRelease != nil && (a.To == "load.txnDone" || a.To == "send.txnDone" || a.To == "dead") {
					time.Sleep(3 * time.Millisecond) // the loop is waiting for the write lock now
					tRelease := uint64(time.Now().UnixNano())
					close(lr.heldRelease)
					lr.heldRelease = nil
					if e := <-lr.heldDone; e != nil {
						return fmt.Errorf("held app commit: %w", e)
					}
					lr.heldFinish()
					lr.heldStampFloor, lr.heldStampKey = tRelease, lr.heldK
				}
				ev, err = lr.waitPark()
				if err == nil && !in.Native && lr.heldStampFloor != 0 && len(lr.appCommits) > 0 && (ev.Point == "load.txnDone" || ev.Point == "send.txnDone") {
					// C11: a change is stamped with the time of its detection - never with a time before the
					// application committed it (the LS transaction started to wait for the lock before that commit)
					raw, _, _ := w.readRaw(1, syncer.SyncDBIShadowPrefix+w.DBIName)
					for _, e := range raw {
						if !bytes.Equal(e.Key, w.key(lr.heldStampKey)) {
							continue
						}
						last := lr.appCommits[len(lr.appCommits)-1]
						isCapture := !last.NoVer && ((last.V == -1 && len(e.Val) >= 24 && e.Val[17]&1 != 0) || (last.V != -1 && len(e.Val) >= 24 && e.Val[17]&1 == 0 && bytes.Equal(e.Val[24:], w.Conc.Val[last.V])))
						if h, perr := ParseRaw(e.Val); perr == nil && isCapture && h.TxnID == uint64(toInt64(ev.Args[0])) && h.TS > 1e15 && h.TS < lr.heldStampFloor {
							bad("conformance", "stamp-before-commit", si, nil, "the application's change of key %d, committed while the LS transaction waited for the write lock, is stamped %.2f ms BEFORE it was committed",
								lr.heldStampKey, float64(lr.heldStampFloor-h.TS)/1e6)
						}
					}
					lr.heldStampFloor = 0
				}
			}
			if err != nil {
				bad("conformance", "stuck", si, nil, "%v", err)
				return nil
			}
			if a.To == "dead" {
				if !ev.Exit {
					bad("conformance", "pc-differs", si, nil, "real loop parked at %s, specification says the loop ends with an error", ev.Point)
					return nil
				}
				lr.done = nil
				break
			}
			if a.To == "exit" {
				if !ev.Exit || ev.Err != nil {
					bad("C16", "only-once-exit", si, nil, "only_once: the specification says the loop returns now without error; the real loop: parked at %q, exit=%v, err=%v", ev.Point, ev.Exit, ev.Err)
					return nil
				}
				lr.done = nil
				break
			}
			if ev.Exit {
				cls, prop := "loop-exited", "conformance"
				if in.OnlyOnce && ev.Err == nil {
					cls, prop = "only-once-exit", "C16"
				}
				bad(prop, cls, si, nil, "real loop returned (%v), specification parks at %s", ev.Err, a.To)
				return nil
			}
			if ev.Point != a.To {
				sig := map[string]interface{}{"real": ev.Point, "spec": a.To}
				if windowUsed != "" {
					sig["window"] = windowUsed
				}
				bad("conformance", "pc-differs", si, sig, "real loop parked at %s, specification at %s", ev.Point, a.To)
				return nil
			}
			// arguments of the yield point
			switch ev.Point {
			case "start.listed":
				if len(ev.Args) > 0 {
					lr.recv, _ = ev.Args[0].(*receiver.Receiver)
				}
			case "load.txnDone":
				if toInt64(ev.Args[0]) != int64(a.W) || ev.Args[1].(bool) != a.LC {
					bad("conformance", "args", si, nil, "LoadOnce transaction id %v localChanged %v, specification %d %v", ev.Args[0], ev.Args[1], a.W, a.LC)
				}
			case "load.infoRead", "send.infoRead":
				if toInt64(ev.Args[0]) != int64(a.Txn) {
					bad("conformance", "args", si, nil, "adjusted transaction id %v, specification %d", ev.Args[0], a.Txn)
				}
			case "send.txnDone":
				if toInt64(ev.Args[0]) != int64(a.W) {
					bad("conformance", "args", si, nil, "SendOnce transaction id %v, specification %d", ev.Args[0], a.W)
				}
				// C10: the decision to upload (the snapshot covers every commit up to this transaction)
				if !lr.sinceStore && lr.storedInRun && !lr.forceDue {
					bad("C10", "echo-upload", si, nil, "the loop uploads although the application has not committed since the last upload of this run")
				}
				lr.sinceStore = false
			case "load.done", "loop.sleep", "start.sent":
				if toInt64(ev.Args[0]) != int64(st.LastSynced) {
					bad("conformance", "args", si, nil, "lastSyncedTxnID %v, specification %d", ev.Args[0], st.LastSynced)
				}
				if ev.Point == "loop.sleep" && len(ev.Args) > 1 {
					if done, _ := ev.Args[1].(bool); done != (!st.WaitingOwn && !st.WaitingOth) {
						bad("conformance", "waiting", si, nil, "waitingForInstances.Done() = %v, specification: waiting for own %v, for the other instance %v", done, st.WaitingOwn, st.WaitingOth)
					}
				}
			case "check.read":
				lr.infoAtCheck = toInt64(ev.Args[0])
				if toInt64(ev.Args[0]) != int64(a.Info) || toInt64(ev.Args[1]) != int64(a.LastSynced) {
					bad("conformance", "args", si, nil, "change check read LastTxnID %v lastSynced %v, specification %d %d", ev.Args[0], ev.Args[1], a.Info, a.LastSynced)
				}
			case "loop.next":
				inst, _ := ev.Args[0].(string)
				if (inst != "") != a.Got {
					bad("conformance", "args", si, nil, "Next() returned %q, specification got=%v", inst, a.Got)
				}
				if inst == lr.ownName {
					lr.ownMerged = true
				}
			case "send.committed":
				lr.forceDue = false
			case "send.stored":
				lr.storedInRun = true
				if lr.ownExisted && !lr.ownMerged {
					bad("C05", "upload-before-own-merged", si, nil, "a snapshot was stored before the instance's own old snapshot had been merged")
				}
			}
		}
		if lr.heldRelease != nil {
			continue // the application's transaction is still open: its effect is not visible yet
		}
		// ---- readiness (status/starttracker)
		if s := w.Insts[1].S; s != nil && a.Name == "run" && lr.done != nil {
			l, sto, p := s.VerifStartState()
			if l != st.TListing || sto != st.TStore || p != st.TPass {
				bad("readiness", "start-tracker", si, nil, "start tracker (listing, store, pass) = (%v, %v, %v), specification (%v, %v, %v)", l, sto, p, st.TListing, st.TStore, st.TPass)
			}
		}
		// ---- state comparison
		nowAbs := st.Clock
		db, app, probs := w.Project(1, in.NKeys, nowAbs)
		for _, p := range probs {
			prop := "conformance"
			if len(p) > 4 && p[:4] == "C14:" {
				prop = "C14"
			}
			bad(prop, "monitor", si, nil, "%s", p)
		}
		diverged := false
		for k := 1; k <= in.NKeys; k++ {
			ks := strconv.Itoa(k)
			if db[ks] != st.Store[ks] {
				sig := map[string]interface{}{}
				if windowUsed != "" {
					sig["window"] = windowUsed
				}
				bad("conformance", "db-differs", si, sig, "key %d: real %v, specification %v", k, db[ks], st.Store[ks])
				diverged = true
			}
			if !in.Native && app[ks] != st.Main[ks] {
				bad("conformance", "app-differs", si, nil, "key %d: application sees %d, specification %d", k, app[ks], st.Main[ks])
				diverged = true
			}
		}
		if lt := w.lastTxn(1); lt != int64(st.LastTxn) {
			bad("conformance", "lasttxn-differs", si, nil, "LMDB LastTxnID %d, specification %d", lt, st.LastTxn)
			diverged = true
		}
		// C05/C12: what the cleaner has been told is committed (only after an own snapshot was stored)
		if in := w.Insts[1]; in.S != nil && a.Name != "crash" && a.Name != "init" {
			got := in.S.VerifCleaner().GetCommitted("remote1")
			var want time.Time
			if st.CommittedN > 0 && lr.mergedBase+st.CommittedN <= len(lr.injectedTimes) {
				want = lr.injectedTimes[lr.mergedBase+st.CommittedN-1]
			}
			if !got.Equal(want) {
				bad("C05", "cleaner-told-too-early", si, nil, "the cleaner believes the snapshot of %v of the remote instance is contained in an own stored snapshot, the specification says %v (committedN=%d)", got, want, st.CommittedN)
			}
		}
		// C03 on the real state: an uncaptured application change is still there
		if !in.Native {
			for _, k := range st.Uncaptured {
				if v, ok := lr.appLast[k]; ok && app[strconv.Itoa(k)] != v {
					sig := map[string]interface{}{}
					if windowUsed != "" {
						sig["window"] = windowUsed
					}
					bad("C03", "local-write-destroyed", si, sig, "key %d: the application committed %d, its DBI now holds %d although the change was never captured", k, v, app[strconv.Itoa(k)])
				}
			}
		}
		// bucket: number of own snapshots and newest image
		lr.fb.mu.Lock()
		nStored := len(lr.fb.stored)
		var newest string
		if nStored > 0 {
			newest = lr.fb.stored[nStored-1]
		}
		lr.fb.mu.Unlock()
		if nStored != st.NBucket {
			bad("conformance", "bucket-differs", si, nil, "%d snapshots stored, specification %d", nStored, st.NBucket)
			diverged = true
		} else if newest != "" && a.Name == "run" && a.To == "send.stored" {
			img, probs := w.DecodeImage(1, newest)
			for _, p := range probs {
				if len(p) > 20 && p[:20] == "C06: metadata txn id" {
					continue // the application may have committed since; checked through the yield arguments
				}
				bad("C06", "image", si, nil, "%s", p)
			}
			if fmt.Sprint(sortedVers(img)) != fmt.Sprint(sortedVers(st.NewestImg)) {
				bad("conformance", "image-differs", si, nil, "stored snapshot holds %v, specification %v", sortedVers(img), sortedVers(st.NewestImg))
			}
			// C06: the transaction the snapshot names in its metadata is the one its content is the image of (the id
			// adjusted after an empty write transaction - the specification's bucket entry carries it)
			if upd, err := w.LoadBlob(newest); err == nil && upd.Snapshot != nil && st.NewestTxn > 0 {
				if got := upd.Snapshot.Meta.LmdbTxnID; got != int64(st.NewestTxn) {
					bad("C06", "meta-txnid", si, nil, "the stored snapshot names LMDB transaction %d in its metadata, its content is the image of transaction %d", got, st.NewestTxn)
				}
			}
			// C05: the newest own snapshot never goes backwards
			for ks, old := range lr.prevNewest {
				nv, ok := img[ks]
				if (!ok || (nv != old && !beatsAbs(nv, old))) && !lr.injected[ks+"="+old.String()] {
					bad("C05", "bucket-went-backwards", si, nil, "key %s: newest own snapshot had %v, the new one has %v (present=%v)", ks, old, nv, ok)
				}
			}
			lr.prevNewest = img
		}
		// C09 on the real state
		if in.RecvOnly { // C12: a receive-only instance never stores or deletes anything
			lr.fb.mu.Lock()
			stores, deletes := lr.fb.stores, len(lr.fb.deleted)
			lr.fb.mu.Unlock()
			if stores != 0 || deletes != 0 {
				bad("C12", "receive-only", si, nil, "a receive-only instance performed %d Store and %d Delete calls", stores, deletes)
				return nil
			}
		}
		if a.Name == "run" && a.To == "loop.sleep" && !st.WaitingOwn && !in.RecvOnly {
			var img map[string]Ver
			if newest != "" {
				img, _ = w.DecodeImage(1, newest)
			}
			for _, c := range lr.appCommits {
				if c.Txn > lr.infoAtCheck {
					continue
				}
				if lr.appLast[c.K] != c.V {
					continue // overwritten by a later commit of the application, which is checked itself
				}
				if c.PreStart || c.NoVer {
					continue // changes made while LS was not running are stamped 1 ns and lose against anything (DESIGN.md s.7)
				}
				v, ok := img[strconv.Itoa(c.K)]
				covered := (c.V == -1 && (!ok || v.Del)) || (ok && c.V != -1 && !v.Del && v.Val == c.V)
				if !covered && ok && ((in.Native && v.TS >= c.Clock) || (!in.Native && v.TS > c.Clock)) {
					covered = true // a version at least as new as the write
				}
				if !covered {
					sig := map[string]interface{}{}
					if windowUsed != "" {
						sig["window"] = windowUsed
					}
					bad("C09", "commit-not-published", si, sig, "the loop is idle (LastTxnID read %d) but the newest own snapshot (%v) does not hold the application's commit %d of key %d = %d", lr.infoAtCheck, sortedVers(img), c.Txn, c.K, c.V)
				}
			}
		}
		if diverged {
			return nil
		}
	}
	if len(beh) > 6 {
		R.Add(0, 1, 0)
	}
	if bi%499 == 1 {
		var acts []string
		for _, s := range beh {
			acts = append(acts, s.Act.Name+":"+s.Act.To+s.Act.At)
		}
		R.Sample(map[string]interface{}{"behaviour": acts, "native": in.Native})
	}
	return nil
}

func pcBefore(beh []loopStep, si int) string {
	if si == 0 {
		return ""
	}
	return beh[si-1].PC
}

func (lr *loopRunner) appWriteNative(k, v int, absTS int) error {
	w := lr.w
	in := w.Insts[1]
	return in.Env.Update(func(txn *lmdb.Txn) error {
		dbi, err := txn.OpenDBI(w.DBIName, w.dbiFlags())
		if err != nil {
			return err
		}
		ts := uint64(time.Now().UnixNano())
		if absTS != 0 {
			ts = uint64(absTS)
		}
		var fl byte
		var val []byte
		if v == -1 {
			fl = 1
		} else {
			val = w.Conc.Val[v]
		}
		return txn.Put(dbi, w.key(k), MakeRaw(ts, uint64(txn.ID()), fl, 0, val), 0)
	})
}

var _ = config.Config{}
