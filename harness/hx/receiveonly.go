package hx

import (
	"context"
	"time"

	"github.com/PowerDNS/lightningstream/config"
	"github.com/PowerDNS/lightningstream/syncer"
	"github.com/PowerDNS/simpleblob/backends/memory"
)

func init() { Commands["receiveonly"] = cmdReceiveOnly }

// cmdReceiveOnly: C12 last clause - an instance in receive-only mode never stores or deletes anything,
// although cleaning is enabled in its configuration, superseded snapshots lie in the bucket and it has
// local data and local changes.
func cmdReceiveOnly(args []string) error {
	R := NewResult()
	for _, native := range []bool{true, false} {
		w, err := NewWorld(native, nil, Concs()[0], KeyConcs()[0], R)
		if err != nil {
			return err
		}
		fb := &faultBucket{Interface: memory.New(), loadGate: map[string]chan struct{}{}, failDelete: map[string]bool{}}
		w.Bucket = fb
		if err := w.AddInst(1, false); err != nil {
			return err
		}
		// superseded old snapshots of another instance, first seen long ago from the cleaner's view
		for ts := 1; ts <= 4; ts++ {
			_ = fb.Interface.Store(context.Background(), clName("default", 9, ts), []byte("not-a-snapshot"))
		}
		in := w.Insts[1]
		c := w.config(in.Name)
		c.Storage.Cleanup = config.Cleanup{Enabled: true, Interval: 5 * time.Millisecond, MustKeepInterval: 0, RemoveOldInstancesInterval: time.Millisecond}
		c.StoragePollInterval = 5 * time.Millisecond
		s, err := syncer.New("default", in.Env, fb, c, c.LMDBs["default"], syncer.Options{ReceiveOnly: true})
		if err != nil {
			return err
		}
		if native {
			err = w.NativeWrite(1, 1, Ver{TS: 1, Val: 1})
		} else {
			err = w.ShadowPut(1, 1, 1)
		}
		if err != nil {
			return err
		}
		if _, err := s.SendOnce(context.Background(), in.Env); err != nil {
			R.Bad("receive-only", map[string]interface{}{"prop": "C12", "class": "receive-only"}, "SendOnce in receive-only mode failed: %v", err)
		}
		ctx, cancel := context.WithTimeout(context.Background(), 400*time.Millisecond)
		done := make(chan struct{})
		go func() { _ = s.Sync(ctx); close(done) }()
		time.Sleep(100 * time.Millisecond)
		if native {
			_ = w.NativeWrite(1, 1, Ver{TS: 2, Val: 2})
		} else {
			_ = w.ShadowPut(1, 1, 2)
		}
		<-done
		cancel()
		time.Sleep(20 * time.Millisecond)
		fb.mu.Lock()
		stores, deletes := fb.stores, len(fb.deleted)
		fb.mu.Unlock()
		R.Add(1, 1, 1)
		if stores != 0 || deletes != 0 {
			R.Bad(map[string]interface{}{"native": native}, map[string]interface{}{"prop": "C12", "class": "receive-only"},
				"a receive-only instance performed %d Store and %d Delete calls", stores, deletes)
		}
		w.Close()
	}
	R.Sample("receive-only syncer with cleanup enabled in its configuration, 4 superseded foreign snapshots, local data and a local change")
	return Emit(R)
}
