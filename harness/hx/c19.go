package hx

import (
	"bytes"
	"errors"
	"fmt"
	"io"
	"path/filepath"

	"github.com/PowerDNS/lightningstream/lmdbenv/strategy"
	"github.com/PowerDNS/lmdb-go/lmdb"
)

func init() { Commands["c19"] = cmdC19 }

type stratRow struct {
	Stored  []int    `json:"stored"` // index 0 = key 1
	Input   []int    `json:"input"`
	Dec     []string `json:"dec"`
	Strat   string   `json:"strat"`
	Result  string   `json:"result"`
	Content []int    `json:"content"`
}

// KeyConc maps abstract keys 1..4 to real keys in the DBI's own order.
type KeyConc struct {
	Name    string
	Keys    [][]byte
	IntKey  bool
	HasZero bool
}

func KeyConcs() []KeyConc {
	p510 := bytes.Repeat([]byte{0x61}, 510)
	k := func(b ...byte) []byte { return b }
	return []KeyConc{
		{Name: "ascii", Keys: [][]byte{[]byte("a"), []byte("b"), []byte("c"), []byte("d")}},
		{Name: "nul-ff", Keys: [][]byte{k(0), k(0, 0), k(0, 0xff), k(0xff)}},
		{Name: "prefix", Keys: [][]byte{[]byte("a"), k('a', 0), []byte("ab"), []byte("b")}},
		{Name: "shrink", Keys: [][]byte{[]byte("aaa"), []byte("b"), []byte("ba"), []byte("bb")}}, // a long key, a shorter one, then extensions of it
		{Name: "len511", Keys: [][]byte{append(append([]byte{}, p510...), 1), append(append([]byte{}, p510...), 2), append(append([]byte{}, p510...), 0x80), append(append([]byte{}, p510...), 0xff)}},
		{Name: "int4-zero", IntKey: true, HasZero: true, Keys: [][]byte{U32(0), U32(1), U32(256), U32(0x80000001)}},
		{Name: "int8-zero", IntKey: true, HasZero: true, Keys: [][]byte{U64(0), U64(255), U64(1 << 32), U64(1<<63 + 5)}},
		{Name: "int4", IntKey: true, Keys: [][]byte{U32(1), U32(2), U32(0x100), U32(0xffffffff)}},
	}
}

// scripted is a strategy.Iterator whose decisions are scripted per key.
type scripted struct {
	kc    KeyConc
	input []int
	dec   []string
	pos   int
	txn   *lmdb.Txn
	dbi   lmdb.DBI
	// last Merge call for the current key
	lastOld, lastActual []byte
	lastSet             bool
	rebuild             bool
	sorted              bool
	errs                []string
	emptyKey            int // the stored key holding an empty value (0: none): Clean cannot tell the key from the value
}

func (s *scripted) checkLast() {
	if s.lastSet && !bytes.Equal(s.lastOld, s.lastActual) {
		s.errs = append(s.errs, fmt.Sprintf("iterator was handed %q as stored value, LMDB holds %q", s.lastOld, s.lastActual))
	}
	s.lastSet = false
}

func (s *scripted) Next() ([]byte, error) {
	s.checkLast()
	if s.pos >= len(s.input) {
		s.pos = len(s.input) + 1
		return nil, io.EOF
	}
	s.pos++
	return s.kc.Keys[s.input[s.pos-1]-1], nil
}

func (s *scripted) Merge(oldval []byte) ([]byte, error) {
	k := s.input[s.pos-1]
	key := s.kc.Keys[k-1]
	actual, err := s.txn.Get(s.dbi, key)
	if err != nil && !lmdb.IsNotFound(err) {
		return nil, err
	}
	if !s.rebuild { // rebuild-from-empty: every input entry is an independent put, nothing is "stored for it"
		s.lastOld, s.lastActual, s.lastSet = append([]byte(nil), oldval...), append([]byte(nil), actual...), true
	}
	switch s.dec[k-1] {
	case "keep":
		return oldval, nil
	case "replace":
		if len(oldval) == 0 {
			return []byte{'n', byte('0' + k)}, nil
		}
		return []byte{'r', byte('0' + k)}, nil
	}
	return nil, nil
}

func (s *scripted) Clean(oldval []byte) ([]byte, error) {
	if len(oldval) == 0 && s.emptyKey != 0 {
		switch s.dec[s.emptyKey-1] {
		case "keep":
			return oldval, nil
		case "replace":
			return []byte{'r', byte('0' + s.emptyKey)}, nil
		}
		return nil, nil
	}
	if len(oldval) != 2 {
		s.errs = append(s.errs, fmt.Sprintf("Clean called with %q", oldval))
		return oldval, nil
	}
	k := int(oldval[1] - '0')
	if k < 1 || k > len(s.dec) {
		s.errs = append(s.errs, fmt.Sprintf("Clean called with %q", oldval))
		return oldval, nil
	}
	// Clean must only be called for stored keys that are absent from the input
	for _, ik := range s.input {
		if ik == k && s.sorted {
			s.errs = append(s.errs, fmt.Sprintf("Clean called for key %d which is in the input", k))
		}
	}
	switch s.dec[k-1] {
	case "keep":
		return oldval, nil
	case "replace":
		return []byte{'r', byte('0' + k)}, nil
	}
	return nil, nil
}

func absVal(b []byte) int {
	if len(b) == 0 {
		return 4 // an entry with an empty value (the specification's value 4)
	}
	switch b[0] {
	case 's':
		return 1
	case 'n':
		return 2
	case 'r':
		return 3
	}
	return -1
}

var errAbort = errors.New("abort")

func cmdC19(args []string) error {
	dir := args[0]
	tierName := "quick"
	if len(args) > 1 {
		tierName = args[1]
	}
	var rows []stratRow
	if err := ReadJSON(filepath.Join(dir, "strategy_rows.json"), &rows); err != nil {
		return err
	}
	R := NewResult()
	rng := Rng()
	concs := KeyConcs()
	env, edir, err := TempEnv()
	if err != nil {
		return err
	}
	defer CloseEnv(env, edir)
	// one DBI per concretisation
	dbis := make([]lmdb.DBI, len(concs))
	err = env.Update(func(txn *lmdb.Txn) error {
		for i, kc := range concs {
			fl := uint(lmdb.Create)
			if kc.IntKey {
				fl |= strategy.LMDBIntegerKeyFlag
			}
			d, e := txn.OpenDBI("d"+kc.Name, fl)
			if e != nil {
				return e
			}
			dbis[i] = d
		}
		return nil
	})
	if err != nil {
		return err
	}
	for ri, row := range rows {
		nontrivial := false
		for ci, kc := range concs {
			// quick tier: the first two byte concretisations and the integer ones on every row,
			// the others on a seeded third of the rows
			if tierName == "quick" && (ci == 2 || ci == 4) && rng.Intn(3) != 0 {
				continue
			}
			dbi := dbis[ci]
			var got []int
			var runErr error
			var itErrs []string
			emptyKey := 0
			err := env.Update(func(txn *lmdb.Txn) error {
				for k := 1; k <= len(row.Stored); k++ {
					if row.Stored[k-1] == 4 { // stored with an empty value
						if e := txn.Put(dbi, kc.Keys[k-1], []byte{}, 0); e != nil {
							return e
						}
						emptyKey = k
					} else if row.Stored[k-1] != 0 {
						if e := txn.Put(dbi, kc.Keys[k-1], []byte{'s', byte('0' + k)}, 0); e != nil {
							return e
						}
					}
				}
				it := &scripted{kc: kc, input: row.Input, dec: row.Dec, txn: txn, dbi: dbi, emptyKey: emptyKey,
					rebuild: row.Strat == "EmptyPut", sorted: row.Result == "ok"}
				switch row.Strat {
				case "Update":
					runErr = strategy.Update(txn, dbi, it)
				case "IterUpdate":
					runErr = strategy.IterUpdate(txn, dbi, it)
				case "EmptyPut":
					runErr = strategy.EmptyPut(txn, dbi, it)
				}
				it.checkLast()
				itErrs = it.errs
				// full scan in the DBI's own order: content and order
				cur, e := txn.OpenCursor(dbi)
				if e != nil {
					return e
				}
				defer cur.Close()
				got = make([]int, len(row.Stored))
				lastIdx := -1
				n := 0
				for {
					k, v, e := cur.Get(nil, nil, lmdb.Next)
					if lmdb.IsNotFound(e) {
						break
					}
					if e != nil {
						return e
					}
					idx := -1
					for i := range kc.Keys {
						if bytes.Equal(kc.Keys[i], k) {
							idx = i
						}
					}
					if idx < 0 {
						itErrs = append(itErrs, fmt.Sprintf("unexpected key %x in DBI", k))
						continue
					}
					if idx <= lastIdx {
						itErrs = append(itErrs, "cursor order differs from the concretisation's key order")
					}
					lastIdx = idx
					got[idx] = absVal(v)
					n++
				}
				return errAbort // roll back: next case starts from an empty DBI
			})
			if err != errAbort {
				return fmt.Errorf("row %d conc %s: %v", ri, kc.Name, err)
			}
			R.Evaluations++
			sig := map[string]interface{}{"class": "strategy", "strat": row.Strat, "intkey": kc.IntKey, "haszero": kc.HasZero,
				"first_is_key1": len(row.Input) > 0 && row.Input[0] == 1, "expect": row.Result}
			c := map[string]interface{}{"row": row, "conc": kc.Name}
			for _, e := range itErrs {
				R.Bad(c, sig, "conc=%s %s: %s", kc.Name, row.Strat, e)
			}
			switch row.Result {
			case "notsorted":
				if !errors.Is(runErr, strategy.ErrNotSorted) {
					R.Bad(c, sig, "conc=%s %s: unsorted input %v accepted (err=%v), specification rejects it", kc.Name, row.Strat, row.Input, runErr)
				}
			case "ok":
				if runErr != nil {
					R.Bad(c, sig, "conc=%s %s: valid input %v rejected: %v", kc.Name, row.Strat, row.Input, runErr)
				} else if fmt.Sprint(got) != fmt.Sprint(row.Content) {
					R.Bad(c, sig, "conc=%s %s: stored=%v input=%v dec=%v leaves %v, specification %v", kc.Name, row.Strat, row.Stored, row.Input, row.Dec, got, row.Content)
				}
			}
			nontrivial = true
		}
		if nontrivial {
			R.Distinct++
		}
		if ri%20011 == 7 {
			R.Sample(row)
		}
	}
	R.Counters["rows"] = len(rows)
	R.Counters["concretisations"] = len(concs)
	return Emit(R)
}
