package hx

import (
	"fmt"
	"sort"
	"strconv"
	"sync"
	"time"

	"github.com/PowerDNS/lightningstream/config"
)

func init() { Commands["proto"] = cmdProto }

type protoInput struct {
	Native     bool      `json:"native"`
	NKeys      int       `json:"nkeys"`
	Insts      []int     `json:"insts"`
	Padding    bool      `json:"padding"`
	DupSortOpt bool      `json:"dupsort_opt"`
	Drain      bool      `json:"drain"`
	SweeperCut bool      `json:"sweeper_cut"` // sweeper enabled: abstract timestamps < 2 are older than the load cut-off
	Behaviours [][]WStep `json:"behaviours"`
}

func verOf(r RVer, w *World) string { return fmt.Sprintf("{ts:%d del:%v val:%q}", r.TS, r.Del, r.Val) }

// beatsAbs is the documented LWW order on abstract versions, written independently of the spec.
func beatsAbs(n, o Ver) bool {
	if o.Absent() {
		return !n.Absent()
	}
	if n.Absent() {
		return false
	}
	if n.TS != o.TS {
		return n.TS > o.TS
	}
	if n.Val != o.Val {
		return n.Val < o.Val
	}
	return n.Del && !o.Del
}

func cmdProto(args []string) error {
	var in protoInput
	if err := ReadJSON(args[0], &in); err != nil {
		return err
	}
	R := NewResult()
	concs := Concs()
	kconcs := KeyConcs()
	var firstErr error
	var emu sync.Mutex
	ParallelFor(len(in.Behaviours), 8, func(bi int) {
		beh := in.Behaviours[bi]
		conc := concs[bi%len(concs)]
		kc := kconcs[(bi/len(concs))%len(kconcs)]
		if !in.Native && usesEmptyAppValue(beh) {
			// finding F10 (lmdb-go RawRead of an empty value behind an even-length key at the end of
			// the last page dies with SIGBUS): such inputs are probed separately (rawread-probe)
			kc = kconcs[0]
		}
		if err := replayProto(R, in, beh, conc, kc, bi); err != nil {
			emu.Lock()
			if firstErr == nil {
				firstErr = fmt.Errorf("behaviour %d: %w", bi, err)
			}
			emu.Unlock()
		}
		R.Add(0, 0, 1)
	})
	if firstErr != nil {
		return firstErr
	}
	return Emit(R)
}

func replayProto(R *Result, in protoInput, beh []WStep, conc Conc, kc KeyConc, bi int) error {
	if in.SweeperCut {
		now := uint64(time.Now().UnixNano())
		day := uint64(24 * time.Hour)
		conc = Conc{Name: "retention-10d", TS: []uint64{0, now - 20*day, now - 5*day, now - day, now - uint64(time.Hour), now - uint64(time.Minute), now - uint64(time.Second)},
			Val: conc.Val, XF: conc.XF}
	}
	w, err := NewWorld(in.Native, nil, conc, kc, R)
	if err != nil {
		return err
	}
	w.Padding = in.Padding
	w.DupSortOpt = in.DupSortOpt
	if in.SweeperCut {
		w.Sweeper = config.Sweeper{Enabled: true, RetentionDays: 10}
		w.AgeSnapshots = bi%2 == 1
	}
	defer w.Close()
	for _, i := range in.Insts {
		if err := w.AddInst(i, false); err != nil {
			return err
		}
	}
	prevDB := map[int]map[string]Ver{}
	for _, i := range in.Insts {
		prevDB[i], _, _ = w.Project(i, in.NKeys, 0)
	}
	bad := func(prop, class string, stepIdx int, format string, a ...interface{}) {
		sig := map[string]interface{}{"prop": prop, "class": class, "native": in.Native}
		c := map[string]interface{}{"behaviour": beh[:stepIdx+1], "conc": conc.Name, "keys": kc.Name, "native": in.Native, "step": stepIdx}
		R.Bad(c, sig, "step %d (%s): "+format, append([]interface{}{stepIdx, beh[stepIdx].Act.Name}, a...)...)
	}
	for si, st := range beh {
		a := st.Act
		if a.Name == "init" {
			continue
		}
		R.Add(1, 0, 0)
		var txnBefore int64
		var dbisBefore string
		if a.I != 0 {
			txnBefore = w.lastTxn(a.I)
			dbisBefore = w.dbiNames(a.I)
		}
		var upName string
		switch a.Name {
		case "nativewrite":
			err = w.NativeWrite(a.I, a.K, *a.V)
			if w.Seen[a.K] == nil {
				w.Seen[a.K] = map[RVer]bool{}
			}
			w.Seen[a.K][RVer{conc.TS[a.V.TS], a.V.Del, string(conc.Val[a.V.Val])}] = true
		case "shadowput":
			err = w.ShadowPut(a.I, a.K, a.Val)
		case "shadowdel":
			err = w.ShadowDel(a.I, a.K)
		case "upload":
			upName, err = w.Upload(a.I)
		case "merge":
			_, err = w.Merge(a.I, a.From, a.Seq)
		default:
			return fmt.Errorf("unknown action %q", a.Name)
		}
		if err != nil {
			bad("conformance", "step-error", si, "real code failed: %v", err)
			return nil
		}
		isLS := a.Name == "upload" || a.Name == "merge"
		diverged := false
		for _, i := range in.Insts {
			now := 0
			if isLS && i == a.I {
				now = a.Now
			}
			db, app, probs := w.Project(i, in.NKeys, now)
			for _, p := range probs {
				prop := "conformance"
				if len(p) > 4 && p[:4] == "C14:" {
					prop = "C14"
				}
				bad(prop, "monitor", si, "instance %d: %s", i, p)
			}
			is := strconv.Itoa(i)
			for k := 1; k <= in.NKeys; k++ {
				ks := strconv.Itoa(k)
				if db[ks] != st.DB[is][ks] {
					bad("conformance", "db-differs", si, "instance %d key %d: real %v, specification %v", i, k, db[ks], st.DB[is][ks])
					diverged = true
				}
				if app[ks] != st.App[is][ks] {
					bad("conformance", "app-differs", si, "instance %d key %d: application sees %d, specification %d", i, k, app[ks], st.App[is][ks])
					diverged = true
				}
				// monitors on the real state only
				if isLS && i == a.I {
					old := prevDB[i][ks]
					if db[ks] != old && !beatsAbs(db[ks], old) {
						bad("C03", "ls-moved-backwards", si, "instance %d key %d: LS replaced %v by %v which does not win", i, k, old, db[ks])
					}
					if !in.Native && a.Name == "merge" {
						want := -1
						if !db[ks].Absent() && !db[ks].Del {
							want = db[ks].Val
						}
						if app[ks] != want {
							cls := "mirror-unfaithful"
							if want == 0 && app[ks] == -1 {
								cls = "mirror-drops-empty-value"
							}
							bad("C11", cls, si, "instance %d key %d: application DBI has %d, live projection of the shadow DBI is %d", i, k, app[ks], want)
						}
					}
				} else if db[ks] != prevDB[i][ks] && a.Name != "nativewrite" {
					bad("conformance", "bystander-changed", si, "instance %d key %d changed by a step of instance %d", i, k, a.I)
				}
			}
			prevDB[i] = db
		}
		// step-specific monitors
		txnAfter := int64(0)
		sameDBIs := false // creating a missing DBI is a legitimate commit
		if a.I != 0 {
			txnAfter = w.lastTxn(a.I)
			sameDBIs = dbisBefore == w.dbiNames(a.I)
		}
		switch a.Name {
		case "upload":
			img, probs := w.DecodeImage(a.I, upName)
			for _, p := range probs {
				bad("C06", "image", si, "%s", p)
			}
			if fmt.Sprint(sortedVers(img)) != fmt.Sprint(sortedVers(a.Img)) {
				bad("C06", "image-differs", si, "snapshot %s holds %v, specification image %v", upName, sortedVers(img), sortedVers(a.Img))
			}
			if (in.Native || !a.Changed) && sameDBIs && txnAfter != txnBefore {
				bad("C10", "upload-committed", si, "SendOnce with nothing to capture recorded LMDB transaction %d -> %d", txnBefore, txnAfter)
			}
		case "merge":
			if !a.Changed && sameDBIs && txnAfter != txnBefore {
				bad("C10", "noop-merge-committed", si, "LoadOnce of a snapshot with nothing newer recorded LMDB transaction %d -> %d", txnBefore, txnAfter)
			}
			// C04: the store now dominates every version of the merged snapshot
			src := w.Insts[a.From]
			img, _ := w.DecodeImage(a.From, src.Snaps[a.Seq-1])
			db := prevDB[a.I]
			for ks, v := range img {
				if in.SweeperCut && v.Del && v.TS < 2 && db[ks].Absent() {
					continue // a marker older than the load cut-off is not re-created on an instance without the key
				}
				if db[ks] != v && !beatsAbs(db[ks], v) {
					bad("C04", "merge-not-dominating", si, "instance %d key %s: after merging %v the store holds %v", a.I, ks, v, db[ks])
				}
			}
		}
		if diverged {
			return nil
		}
	}
	if len(beh) > 2 {
		R.Add(0, 1, 0)
	}
	if bi%997 == 3 {
		R.Sample(map[string]interface{}{"behaviour": actsOf(beh), "conc": conc.Name, "keys": kc.Name})
	}
	if !in.Drain {
		return nil
	}
	// Drain (C01): every instance uploads, every instance merges every newest snapshot; then all
	// instances must be identical and hold the LWW winner of everything ever written.
	for _, i := range in.Insts {
		if len(w.Insts[i].Snaps) == 0 && w.lastTxn(i) == 0 {
			continue // never had data: syncLoop would not upload either
		}
		if _, err := w.Upload(i); err != nil {
			bad("C01", "drain-error", len(beh)-1, "drain upload failed: %v", err)
			return nil
		}
	}
	for _, i := range in.Insts {
		for _, j := range in.Insts {
			if i == j || len(w.Insts[j].Snaps) == 0 {
				continue
			}
			if _, err := w.Merge(i, j, len(w.Insts[j].Snaps)); err != nil {
				bad("C01", "drain-error", len(beh)-1, "drain merge failed: %v", err)
				return nil
			}
		}
	}
	// shadow mode: the drain's own captures created new stamps; collect the final raw state
	type fin struct {
		raw map[string]RVer
		app map[string]string
	}
	finals := map[int]fin{}
	for _, i := range in.Insts {
		f := fin{raw: map[string]RVer{}, app: map[string]string{}}
		raw, _, _ := w.readRaw(i, w.headeredDBI())
		for _, e := range raw {
			h, err := ParseRaw(e.Val)
			if err != nil {
				bad("C14", "monitor", len(beh)-1, "drain: %v", err)
				continue
			}
			rv := RVer{h.TS, h.Flags&1 != 0, string(h.Value)}
			f.raw[string(e.Key)] = rv
			k := w.keyAbs(e.Key)
			if w.Seen[k] == nil {
				w.Seen[k] = map[RVer]bool{}
			}
			w.Seen[k][rv] = true
		}
		if !in.Native {
			rawApp, _, _ := w.readRaw(i, w.DBIName)
			for _, e := range rawApp {
				f.app[string(e.Key)] = string(e.Val)
			}
		}
		finals[i] = f
	}
	first := in.Insts[0]
	for _, i := range in.Insts[1:] {
		if fmt.Sprint(finals[i].raw) != fmt.Sprint(finals[first].raw) || fmt.Sprint(finals[i].app) != fmt.Sprint(finals[first].app) {
			cls := "not-converged"
			if fmt.Sprint(finals[i].raw) == fmt.Sprint(finals[first].raw) && onlyEmptyValuesDiffer(finals[i].app, finals[first].app) {
				cls = "not-converged-empty-app-value" // finding F3: shadowToMain drops application entries with an empty value
			}
			bad("C01", cls, len(beh)-1, "after the drain instance %d holds %v / app %v, instance %d holds %v / app %v",
				first, finals[first].raw, finals[first].app, i, finals[i].raw, finals[i].app)
		}
	}
	for k := 1; k <= in.NKeys; k++ {
		want, ok := Winner(w.Seen[k])
		got, has := finals[first].raw[string(w.key(k))]
		if ok != has || (ok && got != want) {
			bad("C01", "not-lww-winner", len(beh)-1, "after the drain key %d is %v (present=%v), the LWW winner of all versions written is %v (any=%v)", k, got, has, want, ok)
		}
	}
	return nil
}

func sortedVers(m map[string]Ver) []string {
	var ks []string
	for k := range m {
		ks = append(ks, k)
	}
	sort.Strings(ks)
	var out []string
	for _, k := range ks {
		out = append(out, k+"="+m[k].String())
	}
	return out
}

func actsOf(beh []WStep) []string {
	var out []string
	for _, s := range beh {
		a := s.Act
		switch a.Name {
		case "nativewrite":
			out = append(out, fmt.Sprintf("write(i%d,k%d,%v)", a.I, a.K, *a.V))
		case "shadowput":
			out = append(out, fmt.Sprintf("put(i%d,k%d,v%d)", a.I, a.K, a.Val))
		case "shadowdel":
			out = append(out, fmt.Sprintf("del(i%d,k%d)", a.I, a.K))
		case "upload":
			out = append(out, fmt.Sprintf("upload(i%d)", a.I))
		case "merge":
			out = append(out, fmt.Sprintf("merge(i%d<-i%d#%d)", a.I, a.From, a.Seq))
		}
	}
	return out
}

func usesEmptyAppValue(beh []WStep) bool {
	for _, s := range beh {
		if s.Act.Name == "shadowput" && s.Act.Val == 0 {
			return true
		}
	}
	return false
}

func onlyEmptyValuesDiffer(a, b map[string]string) bool {
	for k, v := range a {
		if w, ok := b[k]; (!ok || w != v) && v != "" {
			return false
		}
	}
	for k, v := range b {
		if w, ok := a[k]; (!ok || w != v) && v != "" {
			return false
		}
	}
	return true
}
