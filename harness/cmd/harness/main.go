// Command harness binds the TLA+ specifications under /verif/spec to the real
// PowerDNS/lightningstream code: every sub-command reads cases / behaviours
// produced by TLC (JSON on stdin or in a file), runs them against the real
// implementation and reports, as JSON on stdout, what it ran and where the
// implementation disagreed.
package main

import (
	"fmt"
	"os"
	"time"

	"verif/harness/hx"
)

func main() {
	// the drivers run in a local time zone that is not UTC (+02:00), as most deployments do: anything that
	// formats or compares wall-clock time without converting to UTC shows up
	time.Local = time.FixedZone("VERIF+2", 2*3600)
	if len(os.Args) < 2 {
		fmt.Fprintln(os.Stderr, "usage: harness <command> [args]")
		os.Exit(2)
	}
	cmd, ok := hx.Commands[os.Args[1]]
	if !ok {
		fmt.Fprintln(os.Stderr, "unknown command", os.Args[1])
		os.Exit(2)
	}
	if err := cmd(os.Args[2:]); err != nil {
		fmt.Fprintln(os.Stderr, "harness error:", err)
		os.Exit(3)
	}
}
