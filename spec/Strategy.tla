------------------------------ MODULE Strategy ------------------------------
(***************************************************************************)
(* C19: the LMDB update strategies used for syncing                        *)
(*   Update      lmdbenv/strategy/update.go     (point updates)            *)
(*   IterUpdate  lmdbenv/strategy/iterupdate.go + utils.go:iterBoth        *)
(*   EmptyPut    lmdbenv/strategy/emptyput.go + put.go:doPut               *)
(* as explicit loop state machines over an abstract ordered key space      *)
(* 1..NKeys (the DBI's own key order: byte order or native unsigned        *)
(* integer order - the harness concretises both), with a scripted          *)
(* iterator whose merge / clean decision per key is keep | replace |       *)
(* delete.  Values: 0 = absent/nil, 1 = the initially stored value,        *)
(* 2 = replacement computed from "no stored value", 3 = replacement        *)
(* computed from a stored value (so a replace records whether the          *)
(* strategy handed the stored value to the iterator).                      *)
(*                                                                         *)
(* The loop is one record-valued variable st; Step(st) is one iteration    *)
(* of the Go loop.  Run iterates Step to completion and is what the        *)
(* exported conformance table is computed from; the invariant compares     *)
(* every terminal state with the map-based reference Ref.                  *)
(***************************************************************************)
EXTENDS Integers, Sequences, FiniteSets, TLC, Json, SequencesExt

CONSTANTS NKeys, MaxLen, MaxUnsortedLen,
          EmptyKeys   \* how many stored keys may hold an EMPTY value (value 4): to an iterator an empty stored value is "nothing stored"

Keys == 1..NKeys
Decision == {"keep", "replace", "delete"}
Strategies == {"Update", "IterUpdate", "EmptyPut"}

ApplyMerge(d, old) == CASE d = "keep" -> IF old = 4 THEN 0 ELSE old      \* an empty result means "no entry"
                        [] d = "replace" -> IF old \in {0, 4} THEN 2 ELSE 3
                        [] d = "delete" -> 0
ApplyClean(d, old) == CASE d = "keep" -> old
                        [] d = "replace" -> 3
                        [] d = "delete" -> 0

StrictlyIncreasing(s) == \A i \in 1..(Len(s) - 1) : s[i] < s[i + 1]
InSeq(k, s) == \E i \in 1..Len(s) : s[i] = k

---------------------------------------------------------------------------
(* Reference semantics (maps, no cursors).                                 *)
RECURSIVE FoldUpdate(_, _, _, _)
FoldUpdate(content, input, dec, i) ==
    IF i > Len(input) THEN content
    ELSE LET k == input[i] IN
         FoldUpdate([content EXCEPT ![k] = ApplyMerge(dec[k], content[k])], input, dec, i + 1)

RECURSIVE FoldPut(_, _, _, _)
FoldPut(content, input, dec, i) ==
    IF i > Len(input) THEN content
    ELSE LET k == input[i]
             v == ApplyMerge(dec[k], 0) IN
         FoldPut(IF v = 0 THEN content ELSE [content EXCEPT ![k] = v], input, dec, i + 1)

Ref(stored, input, dec, strat) ==
    CASE strat = "Update" -> [result |-> "ok", content |-> FoldUpdate(stored, input, dec, 1)]
      [] strat = "EmptyPut" -> [result |-> "ok", content |-> FoldPut([k \in Keys |-> 0], input, dec, 1)]
      [] strat = "IterUpdate" ->
            IF ~StrictlyIncreasing(input) THEN [result |-> "notsorted", content |-> stored]
            ELSE [result |-> "ok",
                  content |-> [k \in Keys |->
                      IF InSeq(k, input) THEN ApplyMerge(dec[k], stored[k])
                      ELSE IF stored[k] # 0 THEN ApplyClean(dec[k], stored[k]) ELSE 0]]

---------------------------------------------------------------------------
(* The loops.  Fields of st:                                               *)
(*  stored0, input, dec, strat : the case (never change)                   *)
(*  content : current DBI content                                          *)
(*  pos     : number of input keys fetched so far (it.Next calls)          *)
(*  itKey, dbKey : held keys of iterBoth (0 = nil); itEOF, dbEOF           *)
(*  prevKey : last input key seen by the order check (0 = "empty")         *)
(*  lastDb  : last key returned by the LMDB cursor (0 = before first)      *)
(*  dropped : EmptyPut has emptied the DBI                                 *)
(*  result  : "run" | "ok" | "notsorted"                                   *)
InitRec(stored, input, dec, strat) ==
    [stored0 |-> stored, input |-> input, dec |-> dec, strat |-> strat,
     content |-> stored, pos |-> 0, itKey |-> 0, dbKey |-> 0, itEOF |-> FALSE, dbEOF |-> FALSE,
     prevKey |-> 0, lastDb |-> 0, dropped |-> FALSE, result |-> "run"]

NextDbKey(content, last) ==
    LET later == {k \in Keys : k > last /\ content[k] # 0} IN
    IF later = {} THEN 0 ELSE CHOOSE k \in later : \A j \in later : k <= j

(* update.go:25-49 - one loop iteration *)
StepUpdate(s) ==
    IF s.pos >= Len(s.input) THEN [s EXCEPT !.result = "ok"]
    ELSE LET k == s.input[s.pos + 1] IN
         [s EXCEPT !.pos = @ + 1, !.content[k] = ApplyMerge(s.dec[k], s.content[k])]

(* emptyput.go:21 then put.go:24-59 with isEmpty = TRUE *)
StepEmptyPut(s) ==
    IF ~s.dropped THEN [s EXCEPT !.dropped = TRUE, !.content = [k \in Keys |-> 0]]
    ELSE IF s.pos >= Len(s.input) THEN [s EXCEPT !.result = "ok"]
    ELSE LET k == s.input[s.pos + 1]
             v == ApplyMerge(s.dec[k], 0) IN
         [s EXCEPT !.pos = @ + 1, !.content[k] = IF v = 0 THEN @ ELSE v]

(* utils.go:40-116 - one iteration of the for loop of iterBoth, with the   *)
(* callback of iterupdate.go:50-124 inlined.                               *)
StepIterUpdate(s) ==
    LET \* "Next iterator key if needed" (utils.go:42-60)
        fetchIt == s.itKey = 0 /\ ~s.itEOF
        atEnd   == s.pos >= Len(s.input)
        newKey  == IF fetchIt /\ ~atEnd THEN s.input[s.pos + 1] ELSE 0
        unsorted == fetchIt /\ ~atEnd /\ s.prevKey >= newKey
        s1 == IF ~fetchIt THEN s
              ELSE IF atEnd THEN [s EXCEPT !.itEOF = TRUE]
              ELSE [s EXCEPT !.itKey = newKey, !.pos = @ + 1, !.prevKey = newKey]
        \* "Next LMDB key if needed" (utils.go:62-74)
        fetchDb == s1.dbKey = 0 /\ ~s1.dbEOF
        nk      == NextDbKey(s1.content, s1.lastDb)
        s2 == IF ~fetchDb THEN s1
              ELSE IF nk = 0 THEN [s1 EXCEPT !.dbEOF = TRUE]
              ELSE [s1 EXCEPT !.dbKey = nk, !.lastDb = nk]
        \* callback for a stored key that is not in the input (iterupdate.go:53-72)
        CleanCb(t) == [t EXCEPT !.content[t.dbKey] = ApplyClean(t.dec[t.dbKey], t.content[t.dbKey]), !.dbKey = 0]
        \* callback for an input key without stored value (iterupdate.go:74-100)
        AddCb(t) == [t EXCEPT !.content[t.itKey] = ApplyMerge(t.dec[t.itKey], 0), !.itKey = 0]
        \* callback for an input key with stored value (iterupdate.go:102-123)
        BothCb(t) == [t EXCEPT !.content[t.itKey] = ApplyMerge(t.dec[t.itKey], t.content[t.itKey]),
                               !.itKey = 0, !.dbKey = 0]
    IN  IF unsorted THEN [s EXCEPT !.result = "notsorted"]
        ELSE IF s2.itEOF /\ s2.dbEOF THEN [s2 EXCEPT !.result = "ok"]
        ELSE IF s2.itEOF THEN CleanCb(s2)
        ELSE IF s2.dbEOF THEN AddCb(s2)
        ELSE IF s2.dbKey < s2.itKey THEN CleanCb(s2)
        ELSE IF s2.dbKey = s2.itKey THEN BothCb(s2)
        ELSE AddCb(s2)

Step(s) == CASE s.strat = "Update" -> StepUpdate(s)
             [] s.strat = "EmptyPut" -> StepEmptyPut(s)
             [] s.strat = "IterUpdate" -> StepIterUpdate(s)

RECURSIVE Run(_)
Run(s) == IF s.result # "run" THEN s ELSE Run(Step(s))

---------------------------------------------------------------------------
Stores == {s \in [Keys -> {0, 1, 4}] : Cardinality({k \in Keys : s[k] = 4}) <= EmptyKeys}
RECURSIVE SeqsUpTo(_)
SeqsUpTo(n) == IF n = 0 THEN {<<>>} ELSE SeqsUpTo(n - 1) \cup [1..n -> Keys]
Inputs == {s \in SeqsUpTo(MaxLen) : StrictlyIncreasing(s) \/ Len(s) <= MaxUnsortedLen}
Decs == [Keys -> Decision]

VARIABLE st
Init == \E stored \in Stores, input \in Inputs, dec \in Decs, strat \in Strategies :
            st = InitRec(stored, input, dec, strat)
Next == st.result = "run" /\ st' = Step(st)
Spec == Init /\ [][Next]_st

(* Terminal states agree with the reference; valid input is never rejected *)
(* and invalid input never accepted (IterUpdate).                          *)
MatchesRef ==
    st.result # "run" =>
        LET r == Ref(st.stored0, st.input, st.dec, st.strat) IN
        /\ st.result = r.result
        /\ (r.result = "ok" => st.content = r.content)
(* iterBoth never holds both EOF flags with a pending key, and keys are    *)
(* consumed in order.                                                      *)
LoopSane == /\ (st.itEOF => st.itKey = 0)
            /\ (st.dbEOF => st.dbKey = 0)
            /\ st.pos <= Len(st.input)

---------------------------------------------------------------------------
(* Conformance table: one row per case, computed with the loop machines.   *)
Rows == {LET f == Run(InitRec(stored, input, dec, strat)) IN
         [stored |-> stored, input |-> input, dec |-> dec, strat |-> strat,
          result |-> f.result, content |-> f.content] :
            stored \in Stores, input \in Inputs, dec \in Decs, strat \in Strategies}
ASSUME JsonSerialize("strategy_rows.json", SetToSeq(Rows))
=============================================================================
