CONSTANTS
  Inst = {"a", "b", "c"}
  MaxSeq = 1000
  DLLimit = 1
  DCLimit = 2
  MaxFaults = 1000
  MaxPub = 1000
SPECIFICATION TSpec
INVARIANTS NotAccepted TokensAccounted IgnoredForGood DeliversDecodable
CONSTRAINT Progress
CHECK_DEADLOCK FALSE
