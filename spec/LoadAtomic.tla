----------------------------- MODULE LoadAtomic -----------------------------
(***************************************************************************)
(* C18: LoadOnce (syncer/sync.go:348-564) merges a snapshot in ONE LMDB    *)
(* write transaction.  The transaction is modelled step by step:           *)
(*   Begin, then per snapshot DBI: Gate (private DBI skipped, transform    *)
(*   and version gates, DBI creation rule) and MergeDBI (which may fail at *)
(*   any entry: malformed entry, full map; or be cancelled after it), then *)
(*   Mirror (shadow mode), then Commit - or Abort on the first error.      *)
(* A concurrent reader opens read transactions at any time.  The content   *)
(* of a DBI is abstracted to a generation number: the snapshot carries     *)
(* generation 2 for every DBI, the LMDB holds generation 1.                *)
(***************************************************************************)
EXTENDS Integers, Sequences, FiniteSets, TLC, Json, SequencesExt

CONSTANTS NDBI,          \* number of DBIs in the snapshot
          Native

DBIs == 1..NDBI
Reasons == {"malformed", "mapfull", "cancel"}

(* ---- the gates, as a function of what a snapshot DBI declares ---- *)
Transforms == {"", "dupsort_hack_v1", "unknown"}
Gate(fmt, compat, transform, dupflag, native, appDBIExists, private) ==
    IF private THEN "skip"
    ELSE IF transform = "unknown" THEN "refuse"
    ELSE IF native /\ transform # "" THEN "refuse"
    ELSE IF fmt >= 3 /\ (dupflag # (transform = "dupsort_hack_v1")) THEN "refuse"
    ELSE IF ~native /\ ~appDBIExists /\ fmt < 3 THEN "refuse"        \* cannot create the DBI safely
    ELSE IF fmt = 0 THEN "refuse"
    ELSE IF compat > 3 THEN "refuse"
    ELSE "merge"
(* a snapshot as a whole is refused when its versions are not readable, whatever it contains *)
VersionsReadable(fmt, compat) == fmt >= 1 /\ compat <= 3

GateRows == {[fmt |-> f, compat |-> c, transform |-> t, dupflag |-> d, native |-> n, exists |-> e, private |-> p,
              gate |-> Gate(f, c, t, d, n, e, p), readable |-> VersionsReadable(f, c)] :
                f \in 0..4, c \in 0..4, t \in Transforms, d \in BOOLEAN, n \in BOOLEAN, e \in BOOLEAN, p \in BOOLEAN}
ASSUME JsonSerialize("gate_rows.json", SetToSeq(GateRows))

(* ---- the transaction ---- *)
VARIABLES committed,   \* [DBIs -> generation] as seen by new read transactions
          work,        \* the write transaction's private view
          pc,          \* "idle" | "dbi" | "mirror" | "done" | "aborted"
          next,        \* next snapshot DBI to merge
          failAt,      \* [d, reason] chosen failure, d = 0: none
          reader,      \* the reader's current view (a read transaction), or <<>>
          seen,        \* history: every view a reader ever had
          act
vars == <<committed, work, pc, next, failAt, reader, seen, act>>

Old == [d \in DBIs |-> 1]
New == [d \in DBIs |-> 2]

Init == /\ committed = Old /\ work = Old /\ pc = "idle" /\ next = 1
        /\ failAt \in ({0} \X {"none"}) \cup (DBIs \X Reasons)
        /\ reader = <<>> /\ seen = {} /\ act = [name |-> "init"]

Begin == /\ pc = "idle" /\ pc' = "dbi" /\ work' = committed /\ next' = 1
         /\ act' = [name |-> "begin"]
         /\ UNCHANGED <<committed, failAt, reader, seen>>

MergeDBI ==
    /\ pc = "dbi" /\ next <= NDBI
    /\ IF failAt[1] = next /\ failAt[2] \in {"malformed", "mapfull"}
       THEN \* some entries of this DBI may already have been written into the transaction
            /\ work' = [work EXCEPT ![next] = 2] /\ pc' = "aborted"
       ELSE /\ work' = [work EXCEPT ![next] = 2]
            /\ pc' = IF failAt[1] = next /\ failAt[2] = "cancel" THEN "aborted"
                     ELSE IF next = NDBI THEN "mirror" ELSE "dbi"
    /\ next' = next + 1
    /\ act' = [name |-> "merge", d |-> next]
    /\ UNCHANGED <<committed, failAt, reader, seen>>

Mirror == /\ pc = "mirror" /\ pc' = "done"
          /\ act' = [name |-> "mirror"]
          /\ UNCHANGED <<committed, work, next, failAt, reader, seen>>

Commit == /\ pc = "done" /\ committed' = work /\ pc' = "idle-after"
          /\ act' = [name |-> "commit"]
          /\ UNCHANGED <<work, next, failAt, reader, seen>>

Abort == /\ pc = "aborted" /\ work' = committed /\ pc' = "idle-after"
         /\ act' = [name |-> "abort", reason |-> failAt[2]]
         /\ UNCHANGED <<committed, next, failAt, reader, seen>>

ReaderOpen == /\ reader' = committed /\ seen' = seen \cup {committed}
              /\ act' = [name |-> "read"]
              /\ UNCHANGED <<committed, work, pc, next, failAt>>

Next == Begin \/ MergeDBI \/ Mirror \/ Commit \/ Abort \/ ReaderOpen
Spec == Init /\ [][Next]_vars

(* all or nothing: readers only ever see the old or the completely merged state *)
ReadersSeeWhole == seen \subseteq {Old, New}
(* a failed merge leaves the LMDB exactly as it was *)
AbortRestores == (pc = "idle-after" /\ failAt[1] # 0) => committed = Old
SuccessMerges == (pc = "idle-after" /\ failAt[1] = 0) => committed = New
=============================================================================
