------------------------------ MODULE Cleaner ------------------------------
(***************************************************************************)
(* C12 (and the cleaner half of C05): the snapshot cleaner                 *)
(* syncer/cleaner/cleaner.go.  One cleaner (of instance "me") looks at a   *)
(* bucket in which several instances publish snapshots in timestamp order. *)
(* A snapshot is identified by <<instance, timestamp>>.  RunOnce is a      *)
(* transcription of cleaner.go:85-239: newest-first order, the             *)
(* first-seen / must-keep filter, the newest-per-instance filter, the      *)
(* delete loop with failing Delete calls and the stale-instance rule that  *)
(* needs "merged and then committed in an own snapshot".                   *)
(* merged = Syncer.lastByInstance (set by LoadOnce, sync.go:561),          *)
(* committed = Worker.lastByInstance (copied by SetCommitted after a       *)
(* successful SendOnce, send.go:265).                                      *)
(***************************************************************************)
EXTENDS Integers, Sequences, FiniteSets, TLC

CONSTANTS Inst, MaxTime, MaxSnaps, MustKeep, RemoveOld, MaxRuns

VARIABLES files,      \* set of <<inst, ts>> in the bucket
          firstSeen,  \* set of <<inst, ts, time first seen>>  (Worker.snapFirstSeen)
          merged,     \* [Inst -> 0..MaxTime]  0 = none
          committed,  \* [Inst -> 0..MaxTime]
          now, nruns, act
vars == <<files, firstSeen, merged, committed, now, nruns, act>>

Of(i, S) == {f \in S : f[1] = i}
Newest(i, S) == CHOOSE f \in Of(i, S) : \A g \in Of(i, S) : g[2] <= f[2]
FS(f) == CHOOSE x \in firstSeen : x[1] = f[1] /\ x[2] = f[2]
Known(f) == \E x \in firstSeen : x[1] = f[1] /\ x[2] = f[2]

Init == /\ files = {} /\ firstSeen = {} /\ now = 1 /\ nruns = 0
        /\ merged = [i \in Inst |-> 0] /\ committed = [i \in Inst |-> 0]
        /\ act = [name |-> "init"]

Publish(i) ==   \* instance i uploads a snapshot stamped now (in timestamp order per instance)
    /\ Cardinality(Of(i, files)) < MaxSnaps
    /\ \A f \in Of(i, files) : f[2] < now
    /\ files' = files \cup {<<i, now>>}
    /\ act' = [name |-> "publish", i |-> i, ts |-> now]
    /\ UNCHANGED <<firstSeen, merged, committed, now, nruns>>

Tick == /\ now < MaxTime /\ now' = now + 1
        /\ act' = [name |-> "tick"]
        /\ UNCHANGED <<files, firstSeen, merged, committed, nruns>>

Merge(i) ==   \* this instance merges the newest snapshot of i (LoadOnce)
    /\ Of(i, files) # {}
    /\ merged' = [merged EXCEPT ![i] = Newest(i, files)[2]]
    /\ act' = [name |-> "merge", i |-> i, ts |-> merged'[i]]
    /\ UNCHANGED <<files, firstSeen, committed, now, nruns>>

Commit ==   \* this instance stores an own snapshot: SetCommitted(lastByInstance)
    /\ committed' = [i \in Inst |-> IF merged[i] # 0 THEN merged[i] ELSE committed[i]]
    /\ act' = [name |-> "commit"]
    /\ UNCHANGED <<files, firstSeen, merged, now, nruns>>

(* ---- one cleaning run ---- *)
(* filter 1 (cleaner.go:156-170) *)
New(f)    == ~Known(f)
Recent(f) == Known(f) /\ now - FS(f)[3] <= MustKeep
Passed(f) == Known(f) /\ now - FS(f)[3] > MustKeep
SeenRecent(i) == \E f \in Of(i, files) : Recent(f)
(* filter 2 (cleaner.go:174-186) *)
PassedOf(i) == {f \in Of(i, files) : Passed(f)}
Keeper(i) == IF ~SeenRecent(i) /\ PassedOf(i) # {} THEN {Newest(i, PassedOf(i))} ELSE {}
Superseded == UNION {PassedOf(i) \ Keeper(i) : i \in Inst}
(* stale-instance rule (cleaner.go:211-230) *)
TooOld == UNION {{f \in Keeper(i) : now - f[2] > RemoveOld} : i \in Inst}
StaleDeletable == {f \in TooOld : ~(f[2] > committed[f[1]])}
WantDelete == Superseded \cup StaleDeletable

RunOnce(listFails, failing) ==
    /\ nruns < MaxRuns
    /\ nruns' = nruns + 1
    /\ IF listFails
       THEN /\ UNCHANGED <<files, firstSeen>>
            /\ act' = [name |-> "run", listFails |-> TRUE, failing |-> {}, deleted |-> {}]
       ELSE /\ failing \subseteq WantDelete
            /\ files' = files \ (WantDelete \ failing)
            \* snapFirstSeen: forget vanished names, record the new ones
            /\ firstSeen' = {x \in firstSeen : <<x[1], x[2]>> \in files} \cup {<<f[1], f[2], now>> : f \in {g \in files : New(g)}}
            /\ act' = [name |-> "run", listFails |-> FALSE, failing |-> failing, deleted |-> WantDelete \ failing]
    /\ UNCHANGED <<merged, committed, now>>

FailChoices == {{}} \cup {{f} : f \in WantDelete} \cup {WantDelete}

Next == \/ \E i \in Inst : Publish(i)
        \/ Tick
        \/ \E i \in Inst : Merge(i)
        \/ Commit
        \/ \E lf \in BOOLEAN : \E fl \in FailChoices : RunOnce(lf, fl)
Spec == Init /\ [][Next]_vars

---------------------------------------------------------------------------
IsRun == act'.name = "run"
(* never delete what was first seen at most MustKeep ago *)
KeepsYoung == [][IsRun => \A d \in act'.deleted : Known(d) /\ now - FS(d)[3] > MustKeep]_vars
(* an instance's newest snapshot only goes when the instance is stale and  *)
(* this instance has merged it and committed an own snapshot afterwards    *)
KeepsNewest == [][IsRun => \A d \in act'.deleted :
                    d = Newest(d[1], files) => (now - d[2] > RemoveOld /\ committed[d[1]] >= d[2])]_vars
(* errors never cause a wrongful deletion *)
FailSafe == [][IsRun => /\ (act'.listFails => files' = files)
                        /\ files \ files' = act'.deleted
                        /\ act'.deleted \cap act'.failing = {}]_vars
(* superseded snapshots go: after a fault-free run in which every file has *)
(* been known for longer than MustKeep, at most one file per instance is   *)
(* left                                                                    *)
Bounded == [][(IsRun /\ ~act'.listFails /\ act'.failing = {} /\ \A f \in files : Passed(f))
                 => \A i \in Inst : Cardinality(Of(i, files')) <= 1]_vars
(* every instance that had files keeps one unless it was stale+committed   *)
NeverEmptiesLive == [][IsRun => \A i \in Inst :
                        (Of(i, files) # {} /\ Of(i, files') = {}) =>
                            (now - Newest(i, files)[2] > RemoveOld /\ committed[i] >= Newest(i, files)[2])]_vars
=============================================================================
