CONSTANTS
  MaxTS = 60
  MaxVal = 2
  Keys = {1}
  Native = TRUE
  MirrorDropsEmpty = FALSE
  AppVals = {1, 2}
  MaxApp = 2
  MaxRemote = 1
  MaxIter = 1
  RetryCount = 2
  MaxCrash = 0
  AllowWindow = FALSE
  StartStates = {"empty", "data+ownsnap"}
  OtherAtStart = {FALSE}
  ReceiveOnly = FALSE
  MaxForce = 1
  OnlyOnce = FALSE
SPECIFICATION Spec
INVARIANTS TypeOK NoLocalLoss PublishedWhenIdle ReadyMeansLoaded ReadyMeansPublished ExitOnlyWhenDone ReceiveOnlyStoresNothing
PROPERTIES CommittedOnlyAfterStore LSNeverBackwards NoEchoUpload NoUploadBeforeOwnMerged BucketMonotone ReadyStable ForcedWhenDue
CHECK_DEADLOCK FALSE
