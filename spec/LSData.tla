------------------------------- MODULE LSData -------------------------------
(***************************************************************************)
(* Data plane of Lightning Stream: versions, the last-writer-wins order,   *)
(* the merge rule of syncer/iterators.go (NativeIterator.Merge / Clean /   *)
(* addHeader, PlainIterator), the snapshot image of a store and the two    *)
(* shadow mirror passes of syncer/shadow.go.                               *)
(*                                                                         *)
(* Application values are modelled by naturals ordered like bytes.Compare  *)
(* orders the byte strings they stand for; 0 is the empty string.          *)
(* Timestamps are naturals; 0 is a legal timestamp and, in an *incoming*   *)
(* entry, also means "use the iterator's default timestamp".               *)
(***************************************************************************)
EXTENDS Integers, Sequences, FiniteSets, TLC

CONSTANTS MaxTS,      \* timestamps are 0..MaxTS
          MaxVal      \* application values are 0..MaxVal (0 = empty)

TS  == 0..MaxTS
Val == 0..MaxVal

(* A stored version.  Absent has the same shape so that records compare.   *)
Version  == [ts : TS, del : BOOLEAN, val : Val]
Absent   == [ts |-> -1, del |-> FALSE, val |-> 0]
IsAbsent(v) == v.ts = -1
Canonical(v) == v.del => v.val = 0            \* a marker carries no value
StoredVersion == {v \in Version : Canonical(v)}
MaybeStored   == StoredVersion \cup {Absent}

Live(ts, val) == [ts |-> ts, del |-> FALSE, val |-> val]
Tomb(ts)      == [ts |-> ts, del |-> TRUE,  val |-> 0]

(* An incoming snapshot entry: timestamp, the deleted flag after masking,  *)
(* the value as found on the wire (a deleted entry may carry a value:      *)
(* malformed but decodable), xf = unknown flag bits set (masked off by     *)
(* KV.MaskedFlags, snapshot/flags.go).                                     *)
Incoming == [ts : TS, del : BOOLEAN, val : Val, xf : BOOLEAN]

(* Merge context = the fields of NativeIterator that influence Merge.      *)
Ctx == [fmt : 1..3, cutoff : 0..(MaxTS + 1), defTS : TS]

---------------------------------------------------------------------------
(* The last-writer-wins order (iterators.go:119-139).                      *)
(* Higher timestamp wins.  TieWinner is the equal-timestamp rule: the      *)
(* lexicographically lower application value wins; for equal values (only  *)
(* possible for the empty value) a deletion wins over a live entry.        *)
TieWinner(n, o) == \/ n.val < o.val
                   \/ n.val = o.val /\ n.del /\ ~o.del

Beats(n, o) == \/ IsAbsent(o) /\ ~IsAbsent(n)
               \/ ~IsAbsent(o) /\ ~IsAbsent(n) /\
                    (n.ts > o.ts \/ (n.ts = o.ts /\ TieWinner(n, o)))

BeatsOrEq(n, o) == n = o \/ Beats(n, o)

(* Winner of a non-empty set of versions, defined by maximality only.      *)
LWWWinner(S) == CHOOSE w \in S : \A v \in S : BeatsOrEq(w, v)

---------------------------------------------------------------------------
(* addHeader (iterators.go:168-200): what an incoming entry is stored as.  *)
EffDel(in, fmt) == in.del \/ (in.val = 0 /\ fmt < 2)
Norm(in, ts, fmt) ==
    [ts |-> ts, del |-> EffDel(in, fmt), val |-> IF EffDel(in, fmt) THEN 0 ELSE in.val]

(* NativeIterator.Merge (iterators.go:88-140).                             *)
(* Result: res = the stored version afterwards (Absent = key not stored),  *)
(* tag = untouched (the stored bytes are returned as they are) |           *)
(*       rewritten (a fresh header+value is written) |                     *)
(*       dropped   (nothing stored for an absent key).                     *)
Merge(old, in, ctx) ==
    IF IsAbsent(old) THEN
        IF in.del /\ in.ts < ctx.cutoff
        THEN [res |-> Absent, tag |-> "dropped"]
        ELSE [res |-> Norm(in, IF in.ts = 0 THEN ctx.defTS ELSE in.ts, ctx.fmt),
              tag |-> "rewritten"]
    ELSE
        LET ts == IF in.ts = 0 THEN ctx.defTS ELSE in.ts
            n  == Norm(in, ts, ctx.fmt)
        IN  IF in.ts = 0 /\ n.val = old.val /\ n.del = old.del
            THEN [res |-> old, tag |-> "untouched"]     \* default-timestamp use: unchanged
            ELSE IF Beats(n, old)
                 THEN [res |-> n,   tag |-> "rewritten"]
                 ELSE [res |-> old, tag |-> "untouched"]

(* NativeIterator.Clean (iterators.go:142-152): a stored key that is       *)
(* missing from the input of an iterating update becomes a marker stamped  *)
(* with the default timestamp, unless it already is one.                   *)
Clean(old, defTS) ==
    IF old.del THEN [res |-> old, tag |-> "untouched"]
               ELSE [res |-> Tomb(defTS), tag |-> "rewritten"]

---------------------------------------------------------------------------
(* Stores: functions key -> MaybeStored.  Snapshot image of a store        *)
(* (readDBI, utils.go:93-255): every stored entry incl. markers and empty  *)
(* values, with timestamp, masked flags and application value.             *)
AsIncoming(v) == [ts |-> v.ts, del |-> v.del, val |-> v.val, xf |-> FALSE]
Image(store)  == [k \in {kk \in DOMAIN store : ~IsAbsent(store[kk])} |-> store[k]]

(* strategy.Update with a NativeIterator over a snapshot image.            *)
MergeImage(store, img, ctx) ==
    [k \in DOMAIN store |->
        IF k \in DOMAIN img THEN Merge(store[k], AsIncoming(img[k]), ctx).res ELSE store[k]]

(* Application view of a headered store: the live entries.                 *)
LiveProjection(store) ==
    [k \in DOMAIN store |-> IF IsAbsent(store[k]) \/ store[k].del THEN -1 ELSE store[k].val]

(* mainToShadow (shadow.go:21): IterUpdate of the shadow DBI with the      *)
(* application DBI as input, every input entry having timestamp 0 and no   *)
(* flags; app[k] = -1 means the key is not in the application DBI.         *)
MainToShadow(app, shadow, now) ==
    LET ctx == [fmt |-> 3, cutoff |-> 0, defTS |-> now] IN
    [k \in DOMAIN shadow |->
        IF app[k] # -1
        THEN Merge(shadow[k], [ts |-> 0, del |-> FALSE, val |-> app[k], xf |-> FALSE], ctx).res
        ELSE IF IsAbsent(shadow[k]) THEN Absent ELSE Clean(shadow[k], now).res]

(* shadowToMain (shadow.go:108): IterUpdate of the application DBI with    *)
(* the shadow image through a PlainIterator.                               *)
ShadowToMain(shadow) == LiveProjection(shadow)

=============================================================================
