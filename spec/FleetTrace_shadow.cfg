CONSTANTS
  MaxTS = 100000
  MaxVal = 4
  Keys = {"1", "2", "3"}
  Native = FALSE
  MirrorDropsEmpty = TRUE
SPECIFICATION FSpec
INVARIANTS NotAccepted
CONSTRAINT Progress
POSTCONDITION Report
CHECK_DEADLOCK FALSE
