CONSTANTS
  MaxTS = 60
  MaxVal = 2
  Keys = {1}
  Native = FALSE
  MirrorDropsEmpty = TRUE
  AppVals = {1, 2}
  MaxApp = 2
  MaxRemote = 2
  MaxIter = 2
  RetryCount = 2
  MaxCrash = 0
  AllowWindow = TRUE
  StartStates = {"empty", "data"}
  OtherAtStart = {FALSE}
  ReceiveOnly = FALSE
  MaxForce = 0
  OnlyOnce = FALSE
SPECIFICATION Spec
INVARIANTS TypeOK PublishedWhenIdle ReadyMeansLoaded ReadyMeansPublished ExitOnlyWhenDone ReceiveOnlyStoresNothing
PROPERTIES CommittedOnlyAfterStore LSNeverBackwards NoEchoUpload NoUploadBeforeOwnMerged BucketMonotone ReadyStable ForcedWhenDue
CHECK_DEADLOCK FALSE
