CONSTANTS
  PartSet = {1, 2, 4, 5, 6, 7, 8, 9, 10}
  MaxParts = 5
INIT Init
NEXT Next
CHECK_DEADLOCK FALSE
