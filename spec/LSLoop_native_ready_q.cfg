CONSTANTS
  MaxTS = 60
  MaxVal = 2
  Keys = {1}
  Native = TRUE
  MirrorDropsEmpty = FALSE
  AppVals = {1, 2}
  MaxApp = 1
  MaxRemote = 1
  MaxIter = 1
  RetryCount = 2
  MaxCrash = 1
  AllowWindow = FALSE
  StartStates = {"empty", "data", "ownsnap", "data+ownsnap"}
  OtherAtStart = {TRUE, FALSE}
  ReceiveOnly = FALSE
  MaxForce = 0
  OnlyOnce = FALSE
SPECIFICATION Spec
INVARIANTS TypeOK NoLocalLoss PublishedWhenIdle ReadyMeansLoaded ReadyMeansPublished ExitOnlyWhenDone ReceiveOnlyStoresNothing
PROPERTIES CommittedOnlyAfterStore LSNeverBackwards NoEchoUpload NoUploadBeforeOwnMerged BucketMonotone ReadyStable ForcedWhenDue
CHECK_DEADLOCK FALSE
