----------------------------- MODULE MergeLaws -----------------------------
(***************************************************************************)
(* C02: the merge rule as a per-key register.  One key of one DBI; any     *)
(* sequence of incoming snapshot entries is merged into it.  The register  *)
(* invariant says the stored version is the LWW winner of everything that  *)
(* was merged (= order-insensitive, idempotent, associative), the action   *)
(* property says it never moves backwards and is untouched when the        *)
(* incoming version does not win.  The function tables that the harness    *)
(* replays on the real NativeIterator are exported at start-up.            *)
(***************************************************************************)
EXTENDS LSData, Json, SequencesExt

CONSTANTS Cutoffs, DefTSs, Fmts, MaxMerges

VARIABLES stored,   \* the version stored for the key (Absent if none)
          seen,     \* history: set of versions that were offered and not dropped as stale
          ctx,      \* the iterator's context, fixed per behaviour
          n,        \* number of merges so far
          act       \* last action (self-describing edges for replay)
vars == <<stored, seen, ctx, n, act>>

Ctxs == {c \in Ctx : c.cutoff \in Cutoffs /\ c.defTS \in DefTSs /\ c.fmt \in Fmts}

Init == /\ stored \in MaybeStored
        /\ seen = IF IsAbsent(stored) THEN {} ELSE {stored}
        /\ ctx \in Ctxs
        /\ n = 0
        /\ act = [name |-> "init"]

(* The register is driven by entries with an explicit timestamp, or with   *)
(* timestamp 0 when there is no default timestamp (snapshot merge).        *)
MergeIn(in) ==
    /\ n < MaxMerges
    /\ in.ts # 0 \/ ctx.defTS = 0
    /\ LET m == Merge(stored, in, ctx) IN
       /\ stored' = m.res
       /\ seen' = IF m.tag = "dropped" THEN seen ELSE seen \cup {Norm(in, in.ts, ctx.fmt)}
       /\ act' = [name |-> "merge", in |-> in, tag |-> m.tag]
    /\ n' = n + 1
    /\ UNCHANGED ctx

Next == \E in \in Incoming : MergeIn(in)
Spec == Init /\ [][Next]_vars

---------------------------------------------------------------------------
TypeOK == stored \in MaybeStored /\ seen \subseteq StoredVersion

(* order-insensitive join: result depends only on the set merged *)
RegisterIsWinner == IF seen = {} THEN IsAbsent(stored) ELSE stored = LWWWinner(seen)

(* never backwards; untouched unless the incoming version wins *)
NeverBackwards == [][ /\ (stored' # stored => Beats(stored', stored))
                      /\ (act'.tag = "untouched" => stored' = stored)
                      /\ (act'.name = "merge" /\ ~IsAbsent(stored)
                            /\ ~Beats(Norm(act'.in, act'.in.ts, ctx.fmt), stored)
                          => act'.tag = "untouched") ]_vars

---------------------------------------------------------------------------
(* Function-level laws over the whole finite domain (checked at start-up). *)
C0(f) == [fmt |-> f, cutoff |-> 0, defTS |-> 0]
M(o, i, c) == Merge(o, i, c).res
StoredIncoming == {i \in Incoming : i.ts # 0 \/ TRUE}

Idempotent ==
    \A o \in MaybeStored, i \in Incoming, c \in Ctxs :
        LET r == Merge(o, i, c) IN
        (i.ts # 0 \/ c.defTS = 0) => /\ M(r.res, i, c) = r.res
                                      /\ (~IsAbsent(r.res) => Merge(r.res, i, c).tag = "untouched")
Commutative ==
    \A o \in MaybeStored, a, b \in Incoming, f \in Fmts :
        M(M(o, a, C0(f)), b, C0(f)) = M(M(o, b, C0(f)), a, C0(f))
Associative ==   \* all six orders of three entries agree (from an absent key and from any stored one)
    \A o \in {Absent, Live(1, 1), Tomb(1), Live(1, 0)}, a, b, c \in {i \in Incoming : ~i.xf} :
        LET x == C0(3)
            r1 == M(M(M(o, a, x), b, x), c, x) IN
        /\ r1 = M(M(M(o, a, x), c, x), b, x)
        /\ r1 = M(M(M(o, b, x), a, x), c, x)
        /\ r1 = M(M(M(o, b, x), c, x), a, x)
        /\ r1 = M(M(M(o, c, x), a, x), b, x)
        /\ r1 = M(M(M(o, c, x), b, x), a, x)
MonotoneAllCutoffs ==
    \A o \in MaybeStored, i \in Incoming, c \in Ctxs :
        LET r == Merge(o, i, c) IN
        /\ (r.res # o => Beats(r.res, o))
        /\ (r.tag = "untouched" => r.res = o)
BeatsIsStrictTotalOrder ==
    /\ \A a, b \in StoredVersion : a # b => (Beats(a, b) <=> ~Beats(b, a))
    /\ \A a \in StoredVersion : ~Beats(a, a)
    /\ \A a, b, c \in StoredVersion : Beats(a, b) /\ Beats(b, c) => Beats(a, c)
(* the shadow-capture use: unchanged value is untouched, a changed one is  *)
(* stamped with the default timestamp and wins iff that beats the old one  *)
CaptureLaw ==
    \A o \in StoredVersion, v \in Val, d \in TS \ {0} :
        LET c == [fmt |-> 3, cutoff |-> 0, defTS |-> d]
            r == Merge(o, [ts |-> 0, del |-> FALSE, val |-> v, xf |-> FALSE], c) IN
        /\ (~o.del /\ o.val = v => r.tag = "untouched")
        /\ (o.del \/ o.val # v) /\ d > o.ts => r.res = Live(d, v)
        /\ r.res # o => Beats(r.res, o)

ASSUME Idempotent
ASSUME Commutative
ASSUME Associative
ASSUME MonotoneAllCutoffs
ASSUME BeatsIsStrictTotalOrder
ASSUME CaptureLaw

---------------------------------------------------------------------------
(* Tables for the conformance harness (binding T). *)
MergeRows == {[old |-> o, in |-> i, ctx |-> c, res |-> Merge(o, i, c).res, tag |-> Merge(o, i, c).tag] :
                 o \in MaybeStored, i \in Incoming, c \in Ctxs}
CleanRows == {[old |-> o, defTS |-> d, res |-> Clean(o, d).res, tag |-> Clean(o, d).tag] :
                 o \in StoredVersion, d \in TS}
BeatsRows == {[n |-> a, o |-> b, beats |-> Beats(a, b)] : a \in StoredVersion, b \in StoredVersion}

ASSUME JsonSerialize("merge_rows.json", SetToSeq(MergeRows))
ASSUME JsonSerialize("clean_rows.json", SetToSeq(CleanRows))
ASSUME JsonSerialize("beats_rows.json", SetToSeq(BeatsRows))
=============================================================================
