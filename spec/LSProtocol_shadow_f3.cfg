CONSTANTS
  MaxTS = 5
  MaxVal = 1
  Inst = {1, 2}
  Keys = {1}
  Native = FALSE
  MirrorDropsEmpty = TRUE
  AppVals = {0, 1}
  MaxOps = 3
  MaxSnaps = 2
  LoadCutoff = 0
SPECIFICATION Spec
INVARIANTS TypeOK Converged NoInvention
PROPERTIES LSNeverBackwards MergeDominates NoBounce CaptureFaithful
CHECK_DEADLOCK FALSE
