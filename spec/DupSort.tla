------------------------------- MODULE DupSort -------------------------------
(***************************************************************************)
(* C20: the dupsort hack (syncer/dupsorthack.go) with its real constants.  *)
(* Byte strings are sequences of 0..255.  A duplicate-keys DBI is a list   *)
(* of (key, value) pairs in LMDB order (key bytes, then value bytes).      *)
(***************************************************************************)
EXTENDS Integers, Sequences, FiniteSets, TLC, Json, SequencesExt

MaxLMDBKey == 511
MaxKey == 255
Sep == <<0, 0, 0, 0>>

Run(b, n) == [i \in 1..n |-> b]
Take(s, n) == IF Len(s) <= n THEN s ELSE SubSeq(s, 1, n)

RECURSIVE LexLessFrom(_, _, _)
LexLessFrom(a, b, i) ==
    IF i > Len(a) THEN i <= Len(b)
    ELSE IF i > Len(b) THEN FALSE
    ELSE IF a[i] < b[i] THEN TRUE
    ELSE IF a[i] > b[i] THEN FALSE
    ELSE LexLessFrom(a, b, i + 1)
LexLess(a, b) == LexLessFrom(a, b, 1)

(* dupSortHackEncodeOne *)
EncodeOne(k, v) ==
    IF Len(k) = 0 \/ Len(k) > MaxKey THEN [ok |-> FALSE, key |-> <<>>]
    ELSE [ok |-> TRUE, key |-> k \o Sep \o Take(v, MaxLMDBKey - Len(k) - 4 - 1) \o <<Len(k)>>]

(* dupSortHackDecodeOne *)
DecodeOne(e) ==
    IF Len(e) < 6 THEN [ok |-> FALSE, key |-> <<>>]
    ELSE LET n == e[Len(e)] IN
         IF Len(e) < n + 5 THEN [ok |-> FALSE, key |-> <<>>]
         ELSE IF n = 0 \/ SubSeq(e, n + 1, n + 4) # Sep THEN [ok |-> (n # 0) /\ FALSE, key |-> <<>>]
         ELSE [ok |-> TRUE, key |-> SubSeq(e, 1, n)]

(* dupSortHackEncode over a list of pairs in LMDB order *)
RECURSIVE EncodeFrom(_, _, _, _)
EncodeFrom(pairs, i, prev, acc) ==
    IF i > Len(pairs) THEN [ok |-> TRUE, keys |-> acc]
    ELSE LET e == EncodeOne(pairs[i][1], pairs[i][2]) IN
         IF ~e.ok THEN [ok |-> FALSE, keys |-> <<>>]
         ELSE IF ~LexLess(prev, e.key) THEN [ok |-> FALSE, keys |-> <<>>]   \* not unique or reverse order
         ELSE EncodeFrom(pairs, i + 1, e.key, Append(acc, e.key))
Encode(pairs) == EncodeFrom(pairs, 1, <<>>, <<>>)

(* pools *)
KeyPool == << <<1>>, <<1, 0>>, <<1, 0, 0>>, <<0>>, Run(255, 255), Run(1, 256), <<>>, Run(1, 254) \o <<0>>, <<1, 0, 0, 0, 0>> >>
ValPool == << <<>>, <<0>>, <<1>>, <<0, 0>>, <<0, 0, 0, 0, 1>>, Run(7, 250), Run(7, 251), Run(7, 251) \o <<1>>,
              Run(7, 502), Run(7, 503), Run(7, 600), Run(7, 505) \o <<9>>, Run(7, 505) \o <<8>>, <<0, 0, 0, 1>> >>
Pairs == {<<KeyPool[i], ValPool[j]>> : i \in 1..Len(KeyPool), j \in 1..Len(ValPool)}
PairLess(p, q) == LexLess(p[1], q[1]) \/ (p[1] = q[1] /\ LexLess(p[2], q[2]))

(* ---- laws ---- *)
OneRoundTrip == \A p \in Pairs : LET e == EncodeOne(p[1], p[2]) IN
                    e.ok => /\ Len(e.key) <= MaxLMDBKey
                            /\ DecodeOne(e.key).ok /\ DecodeOne(e.key).key = p[1]
Refuses == \A p \in Pairs : ~EncodeOne(p[1], p[2]).ok <=> (Len(p[1]) = 0 \/ Len(p[1]) > MaxKey)
(* accepted content: distinct, order preserving, reversible *)
ListLaw == \A p \in Pairs, q \in Pairs : PairLess(p, q) =>
              LET r == Encode(<<p, q>>) IN
              r.ok => /\ LexLess(r.keys[1], r.keys[2])
                      /\ DecodeOne(r.keys[1]).key = p[1] /\ DecodeOne(r.keys[2]).key = q[1]
ASSUME OneRoundTrip
ASSUME Refuses
ASSUME ListLaw

(* rows for the harness: byte strings exported run-length encoded as [b, n] pairs *)
RECURSIVE RLEFrom(_, _)
RLEFrom(s, i) == IF i > Len(s) THEN <<>>
                 ELSE LET j == CHOOSE m \in i..Len(s) : (\A x \in i..m : s[x] = s[i]) /\ (m = Len(s) \/ s[m + 1] # s[i]) IN
                      <<<<s[i], j - i + 1>>>> \o RLEFrom(s, j + 1)
RLE(s) == RLEFrom(s, 1)
OneRows == {[key |-> RLE(p[1]), val |-> RLE(p[2]), ok |-> EncodeOne(p[1], p[2]).ok, enc |-> RLE(EncodeOne(p[1], p[2]).key)] : p \in Pairs}
OrderedPairs == {pq \in Pairs \X Pairs : PairLess(pq[1], pq[2])}
ListRows == {[k1 |-> RLE(pq[1][1]), v1 |-> RLE(pq[1][2]), k2 |-> RLE(pq[2][1]), v2 |-> RLE(pq[2][2]), ok |-> Encode(<<pq[1], pq[2]>>).ok] :
                pq \in OrderedPairs}
ASSUME JsonSerialize("dupsort_one_rows.json", SetToSeq(OneRows))
ASSUME JsonSerialize("dupsort_list_rows.json", SetToSeq(ListRows))

VARIABLE x
Init == x = 0
Next == x' = x
=============================================================================
