CONSTANTS
  NKeys = 4
  CheckEvery = 1
  MaxAppOps = 2
SPECIFICATION Spec
INVARIANTS OnlyExpired ExactlyExpired
CHECK_DEADLOCK FALSE
