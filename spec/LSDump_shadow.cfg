CONSTANTS
  DBIs = {1, 2}
  MaxCommits = 3
  MaxDumps = 2
  Native = FALSE
SPECIFICATION Spec
INVARIANTS SnapshotIsImage CrossDBIConsistent TimeNotBeforeContent
CHECK_DEADLOCK FALSE
