CONSTANTS
  MaxTS = 4
  MaxVal = 3
  Cutoffs = {0, 1, 3, 5}
  DefTSs = {0, 2, 4}
  Fmts = {1, 2, 3}
  MaxMerges = 3
SPECIFICATION Spec
INVARIANTS TypeOK RegisterIsWinner
PROPERTIES NeverBackwards
CHECK_DEADLOCK FALSE
