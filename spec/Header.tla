------------------------------- MODULE Header -------------------------------
(***************************************************************************)
(* C14: the native value header (docs/schema-native.md,                    *)
(* lmdbenv/header/header.go): 8 bytes big-endian timestamp, 8 bytes        *)
(* big-endian transaction id, version byte, flags byte, 4 reserved bytes,  *)
(* 2 bytes big-endian count of 8-byte extension blocks, the extension      *)
(* blocks, then the application value.  A stored value is described by its *)
(* shape: total length and the header fields that decide how it is read.   *)
(***************************************************************************)
EXTENDS Integers, Sequences, FiniteSets, TLC, Json, SequencesExt

CONSTANTS Versions, FlagBytes, NumExtras, PosTails, NegTails   \* bytes following the extension area / bytes missing
Tails == PosTails \cup {0 - k : k \in NegTails}

MinHeader == 24
Block == 8

Shape == [total : Nat, version : Versions, flags : FlagBytes, numExtra : NumExtras]

(* Parse / Skip (header.go:129-189): what a reader must conclude *)
Parse(s) ==
    IF s.total < MinHeader THEN [res |-> "tooshort", offset |-> 0]
    ELSE IF s.version # 0 THEN [res |-> "version", offset |-> 0]
    ELSE IF s.total < MinHeader + Block * s.numExtra THEN [res |-> "tooshort", offset |-> 0]
    ELSE [res |-> "ok", offset |-> MinHeader + Block * s.numExtra]

(* what LS writes (PutBasic + optional padding block, iterators.go:168-200) *)
LSWritten(flags, padding, vlen) ==
    [total |-> MinHeader + (IF padding THEN Block ELSE 0) + vlen, version |-> 0, flags |-> flags,
     numExtra |-> IF padding THEN 1 ELSE 0]
WellFormed(s, vlen) == /\ s.version = 0 /\ s.flags \in {0, 1}
                       /\ s.total = MinHeader + Block * s.numExtra + vlen
                       /\ (s.flags = 1 => vlen = 0)

(* laws on the model *)
RoundTrip == \A f \in {0, 1}, p \in BOOLEAN, v \in {0, 1, 100} :
                LET s == LSWritten(f, p, IF f = 1 THEN 0 ELSE v) IN
                /\ WellFormed(s, IF f = 1 THEN 0 ELSE v)
                /\ Parse(s).res = "ok" /\ s.total - Parse(s).offset = (IF f = 1 THEN 0 ELSE v)
NeverMisread == \A v \in Versions, f \in FlagBytes, n \in NumExtras, t \in Tails :
                LET s == [total |-> MinHeader + Block * n + t, version |-> v, flags |-> f, numExtra |-> n] IN
                Parse(s).res = "ok" => (v = 0 /\ t >= 0 /\ Parse(s).offset = MinHeader + Block * n)
ASSUME RoundTrip
ASSUME NeverMisread

Totals(n) == {0, 8, 16, 23} \cup {MinHeader + Block * n + t : t \in Tails}
Rows == {[total |-> t, version |-> v, flags |-> f, numExtra |-> n, res |-> Parse([total |-> t, version |-> v, flags |-> f, numExtra |-> n]).res,
          offset |-> Parse([total |-> t, version |-> v, flags |-> f, numExtra |-> n]).offset] :
            v \in Versions, f \in FlagBytes, n \in NumExtras, t \in UNION {Totals(m) : m \in NumExtras}}
ASSUME JsonSerialize("header_rows.json", SetToSeq({r \in Rows : r.total >= 0}))

VARIABLE x
Init == x = 0
Next == x' = x
=============================================================================
