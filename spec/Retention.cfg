CONSTANTS
  HalfDays = {0, 1, 2, 3, 4, 6, 8, 14, 200, 202, 730}
  NegCutoffsU = {1, 12000}
  PosCutoffsU = {0, 1, 24, 100, 600, 1199, 1200, 1800, 2400, 4800, 28800, 240000, 2400000}
  Times = {0, 1, 2, 3, 4, 5, 6}
INIT Init
NEXT Next
CHECK_DEADLOCK FALSE
