-------------------------------- MODULE Names --------------------------------
(***************************************************************************)
(* C15: snapshot file names (snapshot/name.go) and the instance-name       *)
(* sanitiser (syncer/utils.go:67-77).  Names are sequences of abstract     *)
(* characters:  "a" a letter or digit, "-" the dash, "_" the underscore,   *)
(* "." the dot, "x" any other character (space, slash, unicode ...),       *)
(* "T" one whole well-formed 25-character timestamp, "E" the registered    *)
(* extension "pb.gz".  The harness concretises every abstract character.   *)
(***************************************************************************)
EXTENDS Integers, Sequences, FiniteSets, TLC, Json, SequencesExt

CONSTANTS PartSet,     \* abstract strings used as name parts (index into PartTable)
          MaxParts

Str(s) == s   \* strings are sequences of 1-character strings

(* strings.Cut(name, "."): split at the first dot *)
RECURSIVE FirstDot(_, _)
FirstDot(s, i) == IF i > Len(s) THEN 0 ELSE IF s[i] = "." THEN i ELSE FirstDot(s, i + 1)

(* strings.Split(base, "__"): leftmost non-overlapping separators *)
RECURSIVE SplitUU(_, _, _)
SplitUU(s, i, cur) ==
    IF i > Len(s) THEN <<cur>>
    ELSE IF i < Len(s) /\ s[i] = "_" /\ s[i + 1] = "_" THEN <<cur>> \o SplitUU(s, i + 2, <<>>)
    ELSE SplitUU(s, i + 1, Append(cur, s[i]))

Parse(name) ==
    LET d == FirstDot(name, 1) IN
    IF d = 0 THEN [ok |-> FALSE]
    ELSE LET base == SubSeq(name, 1, d - 1)
             ext  == SubSeq(name, d + 1, Len(name))
             p    == SplitUU(base, 1, <<>>) IN
         IF ext # <<"E">> THEN [ok |-> FALSE]
         ELSE IF Len(p) < 4 THEN [ok |-> FALSE]
         ELSE IF p[3] # <<"T">> THEN [ok |-> FALSE]
         ELSE [ok |-> TRUE, db |-> p[1], inst |-> p[2], gen |-> p[4], extra |-> SubSeq(p, 5, Len(p))]

RECURSIVE JoinUU(_)
JoinUU(ps) == IF Len(ps) = 0 THEN <<>> ELSE IF Len(ps) = 1 THEN ps[1] ELSE ps[1] \o <<"_", "_">> \o JoinUU(Tail(ps))

Build(db, inst, gen, extra) == JoinUU(<<db, inst, <<"T">>, gen>> \o extra) \o <<".", "E">>

(* instanceID(): every character outside [a-zA-Z0-9-] becomes a dash *)
Sanitise(s) == [i \in 1..Len(s) |-> IF s[i] \in {"a", "-"} THEN s[i] ELSE "-"]
Safe(s) == \A i \in 1..Len(s) : s[i] \in {"a", "-"}

PartTable == <<  <<"a">>, <<"-">>, <<"a", "-">>, <<"a", "_">>, <<"_", "a">>, <<>>, <<"T">>, <<"T", "a">>, <<"a", ".", "a">>, <<"x">>, <<"a", "_", "a">>, <<"_">> >>
Parts == {PartTable[i] : i \in PartSet}
SafeParts == {p \in Parts : Safe(p) /\ Len(p) > 0}

(* ---- laws ---- *)
RoundTrip == \A db \in SafeParts, inst \in SafeParts, gen \in SafeParts :
                LET r == Parse(Build(db, inst, gen, <<>>)) IN
                r.ok /\ r.db = db /\ r.inst = inst /\ r.gen = gen /\ r.extra = <<>>
RoundTripExtra == \A db \in SafeParts, inst \in SafeParts, e \in SafeParts :
                LET r == Parse(Build(db, inst, <<"a">>, <<e>>)) IN r.ok /\ r.extra = <<e>> /\ r.inst = inst
(* sanitised instance names cannot collide with the separators *)
SanitisedIsSafe == \A p \in Parts : Safe(Sanitise(p))
SanitisedRoundTrip == \A db \in SafeParts, p \in Parts : Len(p) > 0 =>
                LET r == Parse(Build(db, Sanitise(p), <<"a">>, <<>>)) IN r.ok /\ r.inst = Sanitise(p) /\ r.db = db
(* names of another database are never taken for ours: the listing prefix is db ++ "__" *)
IsPrefix2(p, s) == Len(p) <= Len(s) /\ SubSeq(s, 1, Len(p)) = p
NoCrossDB == \A d1 \in SafeParts, d2 \in SafeParts, inst \in SafeParts :
                IsPrefix2(d1 \o <<"_", "_">>, Build(d2, inst, <<"a">>, <<>>)) => d1 = d2
(* whatever parses re-builds to exactly the same name *)
ParseIsExact == \A ps \in UNION {[1..n -> Parts] : n \in 1..MaxParts}, ext \in {<<".", "E">>, <<".", "a">>, <<>>, <<".", "E", ".", "E">>} :
                LET name == JoinUU(ps) \o ext
                    r == Parse(name) IN
                r.ok => Build(r.db, r.inst, r.gen, r.extra) = name
ASSUME RoundTrip
ASSUME RoundTripExtra
ASSUME SanitisedIsSafe
ASSUME SanitisedRoundTrip
ASSUME NoCrossDB
ASSUME ParseIsExact

ParseRows == {LET name == JoinUU(ps) \o ext
                  r == Parse(name) IN
              [name |-> name, ok |-> r.ok,
               db |-> IF r.ok THEN r.db ELSE <<>>, inst |-> IF r.ok THEN r.inst ELSE <<>>,
               gen |-> IF r.ok THEN r.gen ELSE <<>>, extra |-> IF r.ok THEN r.extra ELSE <<>>] :
                ps \in UNION {[1..n -> Parts] : n \in 1..MaxParts},
                ext \in {<<".", "E">>, <<".", "a">>, <<>>, <<".", "E", ".", "E">>}}
SanRows == {[in |-> p, out |-> Sanitise(p)] : p \in Parts}
ASSUME JsonSerialize("name_parse_rows.json", SetToSeq(ParseRows))
ASSUME JsonSerialize("name_san_rows.json", SetToSeq(SanRows))

VARIABLE x
Init == x = 0
Next == x' = x
=============================================================================
