------------------------------- MODULE Sweeper -------------------------------
(***************************************************************************)
(* C13: the tomb sweeper (syncer/sweeper/sweeper.go) with the resumable    *)
(* LimitScanner (lmdbenv/limitscanner/scanner.go).  One DBI as an ordered  *)
(* map Keys -> entry; an entry is [kind, v]: kind "none" | "live" | "old"  *)
(* (deletion marker older than the retention cut-off) | "young" (marker    *)
(* not older), v a version counter that changes whenever the application   *)
(* rewrites the entry (so that the stored bytes differ).  A pass is        *)
(* chopped into write-lock slices of CheckEvery scanned records; between   *)
(* two slices the application may put, delete (mark) or hard-remove any    *)
(* key.  cur is the LimitCursor (key, value) of the last scanned record.   *)
(***************************************************************************)
EXTENDS Integers, Sequences, FiniteSets, TLC

CONSTANTS NKeys, CheckEvery, MaxAppOps

Keys == 1..NKeys
Kinds == {"none", "live", "old", "young"}
None == [kind |-> "none", v |-> 0]

VARIABLES dbi,        \* [Keys -> entry]
          phase,      \* "idle" | "sweeping" | "done"
          cur,        \* [key, val] of the last scanned record ([key |-> 0] = none)
          start,      \* history: content at the start of the pass
          touched,    \* history: keys the application wrote during the pass
          swept,      \* history: keys the sweeper deleted, with the entry deleted
          nver, nops, act
vars == <<dbi, phase, cur, start, touched, swept, nver, nops, act>>

InitContents == [Keys -> {None, [kind |-> "live", v |-> 1], [kind |-> "old", v |-> 1], [kind |-> "young", v |-> 1]}]
Init == /\ dbi \in InitContents
        /\ phase = "idle" /\ cur = [key |-> 0, val |-> None]
        /\ start = dbi /\ touched = {} /\ swept = {}
        /\ nver = 1 /\ nops = 0 /\ act = [name |-> "init"]

(* records present at or after position p, in key order *)
Present(p) == {k \in Keys : k >= p /\ dbi[k].kind # "none"}
RECURSIVE FirstN(_, _)
FirstN(S, n) == IF n = 0 \/ S = {} THEN <<>>
                ELSE LET m == CHOOSE x \in S : \A y \in S : x <= y IN <<m>> \o FirstN(S \ {m}, n - 1)

(* where a slice resumes (scanner.go:71-76): SetRange(last.key), skip it if key AND value are unchanged *)
ResumeAt == IF cur.key = 0 THEN 1
            ELSE IF dbi[cur.key].kind # "none" /\ dbi[cur.key] = cur.val THEN cur.key + 1 ELSE cur.key

Begin == /\ phase = "idle"
         /\ phase' = "sweeping" /\ start' = dbi /\ touched' = {} /\ swept' = {}
         /\ cur' = [key |-> 0, val |-> None]
         /\ act' = [name |-> "begin"]
         /\ UNCHANGED <<dbi, nver, nops>>

Slice ==
    /\ phase = "sweeping"
    /\ LET recs == FirstN(Present(ResumeAt), CheckEvery)
           del  == {recs[i] : i \in {j \in 1..Len(recs) : dbi[recs[j]].kind = "old"}} IN
       /\ dbi' = [k \in Keys |-> IF k \in del THEN None ELSE dbi[k]]
       /\ swept' = swept \cup {<<k, dbi[k]>> : k \in del}
       /\ cur' = IF Len(recs) = 0 THEN cur ELSE [key |-> recs[Len(recs)], val |-> dbi[recs[Len(recs)]]]
       /\ phase' = IF Len(recs) = CheckEvery THEN "sweeping" ELSE "done"   \* limit reached iff a full slice was scanned
       /\ act' = [name |-> "slice", scanned |-> recs, deleted |-> del, more |-> Len(recs) = CheckEvery]
    /\ UNCHANGED <<start, touched, nver, nops>>

Finish == /\ phase = "done" /\ phase' = "idle"
          /\ act' = [name |-> "finish"]
          /\ UNCHANGED <<dbi, cur, start, touched, swept, nver, nops>>

(* the application, between two slices (it cannot write while the sweeper holds the lock) *)
AppWrite(k, kind) ==
    /\ phase \in {"sweeping"} /\ nops < MaxAppOps
    /\ kind \in Kinds
    /\ (kind = "none" => dbi[k].kind # "none")
    /\ dbi' = [dbi EXCEPT ![k] = IF kind = "none" THEN None ELSE [kind |-> kind, v |-> nver + 1]]
    /\ nver' = nver + 1 /\ nops' = nops + 1
    /\ touched' = touched \cup {k}
    /\ act' = [name |-> "app", k |-> k, kind |-> kind]
    /\ UNCHANGED <<phase, cur, start, swept>>

Next == Begin \/ Slice \/ Finish \/ \E k \in Keys, kind \in Kinds : AppWrite(k, kind)
Spec == Init /\ [][Next]_vars

---------------------------------------------------------------------------
(* only expired markers are ever removed by the sweeper *)
OnlyExpired == \A s \in swept : s[2].kind = "old"
(* at the end of a pass: every marker that was expired at the start and untouched is gone,
   everything else the application did not touch is identical *)
ExactlyExpired ==
    phase = "done" =>
        \A k \in Keys \ touched :
            IF start[k].kind = "old" THEN dbi[k].kind = "none" ELSE dbi[k] = start[k]
=============================================================================
