------------------------------ MODULE Receiver ------------------------------
(***************************************************************************)
(* C16 / C08 (second half): syncer/receiver/receiver.go + downloader.go +  *)
(* utils/climit.  One listing loop (RunOnce), one downloader process per   *)
(* instance with a signal channel of capacity 1, the two token pools       *)
(* (downloaded / decompressed snapshots), the map of snapshots waiting for *)
(* the sync loop and the consumer (Next + Close).  Faults: failing List,   *)
(* failing Load, blob vanished between list and load, undecodable blob.    *)
(* A snapshot is <<instance, seq>>; per instance seq grows with time, so   *)
(* the listing's last name per instance is the one with the highest seq.   *)
(***************************************************************************)
EXTENDS Integers, Sequences, FiniteSets, TLC

CONSTANTS Inst, MaxSeq, DLLimit, DCLimit, MaxFaults, MaxPub

VARIABLES
    bucket,     \* set of <<i, seq>> present in storage
    bad,        \* set of <<i, seq>> whose blob does not decode
    ignored,    \* Receiver.ignoredFilenames
    corrupt,    \* Receiver.corruptSnapshots (become ignored at the next listing)
    lastSeen,   \* [Inst -> 0..MaxSeq]  0 = none
    lastNotified,
    signal,     \* [Inst -> BOOLEAN]  newSnapshotSignal (capacity 1)
    started,    \* [Inst -> BOOLEAN]  downloader goroutine exists
    dpc,        \* [Inst -> "wait" | "head" | "wantDL" | "load" | "wantDC" | "decode" | "sleep"]
    dcur,       \* [Inst -> seq being downloaded]
    dlast,      \* [Inst -> seq]  Downloader.last
    dlFree, dcFree,
    pending,    \* [Inst -> 0..MaxSeq]  snapshotsByInstance (0 = none); each holds a decompress token
    merging,    \* <<i, seq>> held by the sync loop, or <<>>
    delivered,  \* history: [Inst -> highest seq handed to the sync loop]
    nfaults, npub,
    published   \* history: every <<i, seq>> ever published
vars == <<bucket, bad, ignored, corrupt, lastSeen, lastNotified, signal, started, dpc, dcur, dlast,
          dlFree, dcFree, pending, merging, delivered, nfaults, npub, published>>

Init == /\ bucket = {} /\ bad = {} /\ ignored = {} /\ corrupt = {}
        /\ lastSeen = [i \in Inst |-> 0] /\ lastNotified = [i \in Inst |-> 0]
        /\ signal = [i \in Inst |-> FALSE] /\ started = [i \in Inst |-> FALSE]
        /\ dpc = [i \in Inst |-> "wait"] /\ dcur = [i \in Inst |-> 0] /\ dlast = [i \in Inst |-> 0]
        /\ dlFree = DLLimit /\ dcFree = DCLimit
        /\ pending = [i \in Inst |-> 0] /\ merging = <<>> /\ delivered = [i \in Inst |-> 0]
        /\ nfaults = 0 /\ npub = 0 /\ published = {}

MaxOf(S) == IF S = {} THEN 0 ELSE CHOOSE x \in S : \A y \in S : y <= x
SeqsOf(i, S) == {s[2] : s \in {x \in S : x[1] = i}}

---------------------------------------------------------------------------
(* External actions (performed by the harness / the environment).          *)
Publish(i, good) ==   \* instance i uploads its next snapshot (names sort by sequence number)
    /\ npub < MaxPub /\ npub' = npub + 1
    /\ LET s == MaxOf({x[2] : x \in {y \in published : y[1] = i}}) + 1 IN
       /\ s <= MaxSeq
       /\ bucket' = bucket \cup {<<i, s>>}
       /\ published' = published \cup {<<i, s>>}
       /\ bad' = IF good THEN bad ELSE bad \cup {<<i, s>>}
    /\ UNCHANGED <<ignored, corrupt, lastSeen, lastNotified, signal, started, dpc, dcur, dlast, dlFree, dcFree, pending, merging, delivered, nfaults>>

Remove(i, s) ==   \* a cleaner deletes a snapshot
    /\ <<i, s>> \in bucket
    /\ bucket' = bucket \ {<<i, s>>}
    /\ UNCHANGED <<bad, ignored, corrupt, lastSeen, lastNotified, signal, started, dpc, dcur, dlast, dlFree, dcFree, pending, merging, delivered, nfaults>>

(* RunOnce(ctx, includingOwn = TRUE is not modelled: all instances are other instances) *)
ListOK ==
    LET ign == ignored \cup corrupt
        seen == [i \in Inst |-> MaxOf(SeqsOf(i, bucket \ ign))]
        notify == {i \in Inst : seen[i] # 0 /\ seen[i] # lastNotified[i]} IN
    /\ ignored' = ign
    /\ lastSeen' = seen
    /\ lastNotified' = [i \in Inst |-> IF i \in notify THEN seen[i] ELSE lastNotified[i]]
    /\ signal' = [i \in Inst |-> signal[i] \/ i \in notify]
    /\ started' = [i \in Inst |-> started[i] \/ i \in notify]
    /\ UNCHANGED <<bucket, bad, corrupt, dpc, dcur, dlast, dlFree, dcFree, pending, merging, delivered, nfaults>>

ListFails == /\ nfaults < MaxFaults /\ nfaults' = nfaults + 1
             /\ UNCHANGED <<bucket, bad, ignored, corrupt, lastSeen, lastNotified, signal, started, dpc, dcur, dlast, dlFree, dcFree, pending, merging, delivered>>

(* the consumer: Next() hands over one waiting snapshot; Close() returns its token *)
Next(i) ==
    /\ merging = <<>> /\ pending[i] # 0
    /\ merging' = <<i, pending[i]>>
    /\ pending' = [pending EXCEPT ![i] = 0]
    /\ delivered' = [delivered EXCEPT ![i] = pending[i]]
    /\ UNCHANGED <<bucket, bad, ignored, corrupt, lastSeen, lastNotified, signal, started, dpc, dcur, dlast, dlFree, dcFree, nfaults>>

Close ==
    /\ merging # <<>>
    /\ merging' = <<>> /\ dcFree' = dcFree + 1
    /\ UNCHANGED <<bucket, bad, ignored, corrupt, lastSeen, lastNotified, signal, started, dpc, dcur, dlast, dlFree, pending, delivered, nfaults>>

---------------------------------------------------------------------------
(* Downloader of instance i (downloader.go:43-173), one action per blocking point. *)
DUN(i) == UNCHANGED <<bucket, bad, ignored, lastSeen, lastNotified, started, merging, delivered, nfaults>>

DlWake(i) ==      \* receives the signal
    /\ started[i] /\ dpc[i] = "wait" /\ signal[i]
    /\ signal' = [signal EXCEPT ![i] = FALSE]
    /\ dpc' = [dpc EXCEPT ![i] = "head"]
    /\ DUN(i) /\ UNCHANGED <<corrupt, dcur, dlast, dlFree, dcFree, pending>>

DlHead(i) ==      \* top of the retry loop: what is the newest one seen?
    /\ dpc[i] = "head"
    /\ IF lastSeen[i] = 0 \/ lastSeen[i] = dlast[i]
       THEN dpc' = [dpc EXCEPT ![i] = "wait"] /\ dcur' = dcur
       ELSE dpc' = [dpc EXCEPT ![i] = "wantDL"] /\ dcur' = [dcur EXCEPT ![i] = lastSeen[i]]
    /\ DUN(i) /\ UNCHANGED <<corrupt, signal, dlast, dlFree, dcFree, pending>>

DlAcquireDL(i) ==
    /\ dpc[i] = "wantDL" /\ dlFree > 0
    /\ dlFree' = dlFree - 1
    /\ dpc' = [dpc EXCEPT ![i] = "load"]
    /\ DUN(i) /\ UNCHANGED <<corrupt, signal, dcur, dlast, dcFree, pending>>

(* st.Load returns: the harness releases the gated call with an outcome *)
DlLoad(i, fail) ==
    /\ dpc[i] = "load"
    /\ (fail => nfaults < MaxFaults)
    /\ LET gone == <<i, dcur[i]>> \notin bucket IN
       IF fail \/ gone
       THEN /\ dlFree' = dlFree + 1                       \* deferred Release
            /\ dpc' = [dpc EXCEPT ![i] = "sleep"]
            /\ nfaults' = IF fail THEN nfaults + 1 ELSE nfaults
       ELSE /\ dpc' = [dpc EXCEPT ![i] = "wantDC"]
            /\ UNCHANGED <<dlFree, nfaults>>
    /\ UNCHANGED <<bucket, bad, ignored, lastSeen, lastNotified, started, merging, delivered, corrupt, signal, dcur, dlast, dcFree, pending>>

DlRetry(i) ==     \* StorageRetryInterval elapsed
    /\ dpc[i] = "sleep"
    /\ dpc' = [dpc EXCEPT ![i] = "head"]
    /\ DUN(i) /\ UNCHANGED <<corrupt, signal, dcur, dlast, dlFree, dcFree, pending>>

DlAcquireDC(i) ==
    /\ dpc[i] = "wantDC" /\ dcFree > 0
    /\ dcFree' = dcFree - 1
    /\ dpc' = [dpc EXCEPT ![i] = "decode"]
    /\ DUN(i) /\ UNCHANGED <<corrupt, signal, dcur, dlast, dlFree, pending>>

DlDecode(i) ==
    /\ dpc[i] = "decode"
    /\ IF <<i, dcur[i]>> \in bad
       THEN /\ dcFree' = dcFree + 1 /\ dlFree' = dlFree + 1      \* both tokens back
            /\ corrupt' = corrupt \cup {<<i, dcur[i]>>}
            /\ dlast' = [dlast EXCEPT ![i] = dcur[i]]
            /\ dpc' = [dpc EXCEPT ![i] = "sleep"]                  \* LoadOnce returned an error
            /\ pending' = pending
       ELSE /\ dlFree' = dlFree + 1
            \* replaces a waiting older snapshot, whose token is released
            /\ dcFree' = IF pending[i] # 0 THEN dcFree + 1 ELSE dcFree
            /\ pending' = [pending EXCEPT ![i] = dcur[i]]
            /\ dlast' = [dlast EXCEPT ![i] = dcur[i]]
            /\ dpc' = [dpc EXCEPT ![i] = "wait"]
            /\ corrupt' = corrupt
    /\ DUN(i) /\ UNCHANGED <<signal, dcur>>

Internal(i) == DlWake(i) \/ DlHead(i) \/ DlAcquireDL(i) \/ DlRetry(i) \/ DlAcquireDC(i) \/ DlDecode(i)
External == \/ \E i \in Inst, g \in BOOLEAN : Publish(i, g)
            \/ ((\E i \in Inst, s \in 1..MaxSeq : Remove(i, s)) /\ UNCHANGED <<npub, published>>)
            \/ ((ListOK \/ ListFails) /\ UNCHANGED <<npub, published>>)
            \/ ((\E i \in Inst : Next(i)) /\ UNCHANGED <<npub, published>>)
            \/ (Close /\ UNCHANGED <<npub, published>>)
            \/ ((\E i \in Inst, f \in BOOLEAN : DlLoad(i, f)) /\ UNCHANGED <<npub, published>>)
Next_ == External \/ ((\E i \in Inst : Internal(i)) /\ UNCHANGED <<npub, published>>)
Spec == Init /\ [][Next_]_vars
FairSpec == Spec /\ \A i \in Inst : WF_vars(Internal(i) /\ UNCHANGED <<npub, published>>) /\ WF_vars(DlLoad(i, FALSE) /\ UNCHANGED <<npub, published>>) /\ WF_vars(Next(i) /\ UNCHANGED <<npub, published>>)
                 /\ WF_vars(Close /\ UNCHANGED <<npub, published>>) /\ WF_vars(ListOK /\ UNCHANGED <<npub, published>>)

---------------------------------------------------------------------------
Loading == {i \in Inst : dpc[i] \in {"load", "wantDC", "decode"}}
Decoding == {i \in Inst : dpc[i] = "decode"}
Waiting == {i \in Inst : pending[i] # 0}

(* at no time more than configured; nothing leaks *)
TokensAccounted ==
    /\ dlFree >= 0 /\ dcFree >= 0
    /\ dlFree + Cardinality(Loading) = DLLimit
    /\ dcFree + Cardinality(Decoding) + Cardinality(Waiting) + (IF merging = <<>> THEN 0 ELSE 1) = DCLimit

(* a blob that failed to decode is never downloaded again once a listing has happened *)
IgnoredForGood == \A i \in Inst : dpc[i] \in {"load", "wantDC", "decode"} => <<i, dcur[i]>> \notin ignored

(* what is handed over is decodable and never older than what was handed over before *)
DeliversDecodable == /\ \A i \in Inst : pending[i] # 0 => <<i, pending[i]>> \notin bad
                     /\ (merging # <<>> => merging \notin bad)

(* liveness: the newest decodable snapshot of every instance is eventually handed over,
   provided the bucket stops changing and faults stop *)
NewestGood(i) == MaxOf(SeqsOf(i, bucket \ bad))
(* the environment is bounded (MaxSeq publications, MaxFaults faults), so eventually it is quiet *)
Delivered == <>[](\A i \in Inst : NewestGood(i) = 0 \/ delivered[i] >= NewestGood(i))
=============================================================================
