------------------------------- MODULE LSLoop -------------------------------
(***************************************************************************)
(* Control plane of one Lightning Stream instance: syncLoop, LoadOnce and  *)
(* SendOnce (syncer/sync.go, syncer/send.go) step by step, with the LMDB   *)
(* transaction-id logic, against an environment that commits application   *)
(* transactions at every point where LS does not hold the write lock,      *)
(* injects remote snapshots, delivers the instance's own old snapshot,     *)
(* makes Store calls fail and crashes / restarts the instance.             *)
(*                                                                         *)
(* pc is the name of the yield point (hook verifYield, build tag verif) at *)
(* which the loop goroutine is parked; one Run action = the code between   *)
(* two yield points.  All yield points are outside LMDB transactions.      *)
(*                                                                         *)
(* LMDB facts used (checked against the real library, DESIGN.md s.2): a    *)
(* write transaction has id lastTxn+1 and is recorded only if it dirtied   *)
(* something (creating a DBI counts); a read transaction has id lastTxn.   *)
(***************************************************************************)
EXTENDS LSData

CONSTANTS Keys, Native, MirrorDropsEmpty, AppVals,
          MaxApp,         \* bound on application commits
          MaxRemote,      \* bound on injected remote snapshots
          MaxIter,        \* bound on loop iterations
          RetryCount,     \* storage_retry_count
          MaxCrash,       \* bound on crashes
          AllowWindow,    \* may the application commit between an EMPTY LS write transaction and the following env.Info()?
          StartStates,    \* subset of {"empty", "data", "ownsnap", "data+ownsnap"}
          OtherAtStart,   \* subset of BOOLEAN: may another instance's snapshot lie in the bucket when the instance starts
          OnlyOnce,       \* configuration only_once: the loop returns once every instance seen at start-up has been loaded
          ReceiveOnly,    \* option receive-only: SendOnce captures (shadow mode) and returns before dumping / storing
          MaxForce        \* how often the forced-snapshot interval may pass (0: storage_force_snapshot_interval disabled)

VARIABLES
    main,      \* shadow mode: application DBI, [Keys -> -1 \cup Val]; -1 = no entry
    store,     \* native DBI / shadow DBI, [Keys -> MaybeStored]
    appDBI, shadowDBI,   \* do the DBIs exist
    lastTxn,   \* id of the last recorded LMDB transaction
    clock,     \* last stamp handed out (LS capture stamps, native application stamps)
    bucket,    \* sequence of own snapshots [img, txn], oldest first
    ownOld,    \* [has, img]: an own snapshot from a previous life lies in the bucket
    ownDelivered, \* the receiver has handed (or is handing) the newest own snapshot to the loop in this run
    avail,     \* updates ready for Next(): sequence of [own : BOOLEAN, img]
    pc, lastSynced, hasDataAtStart, hasSnapshots, waitingOwn,
    cur,       \* scratch of the running LoadOnce / SendOnce
    ret,       \* where SendOnce returns to: "start" | "loop"
    \* history variables for the monitors
    appLast,   \* last value the application committed per key (shadow mode)
    uncaptured,\* keys the application changed since the last capture
    unpub,     \* set of [k, v, txn]: application commits not yet covered by a stored snapshot
    sendCover, \* unpub as of the running SendOnce's transaction
    appSinceSend, sentSinceStart, infoAtCheck,
    nApp, nRemote, iter, nCrash,
    remoteSeen, \* history: versions that arrived from other instances
    otherOld,   \* [has, img]: the newest snapshot of another instance lying in the bucket (present at every start)
    otherDelivered, waitingOther,   \* as ownDelivered / waitingOwn, for that instance
    tListing, tStore, tPass,        \* status/starttracker: initial listing, initial store (or skipped), first complete pass
    due,        \* the forced-snapshot interval has passed since lastSnapshotTime
    odSeen,     \* snapshotOverdue as evaluated in this iteration (sync.go:276-289)
    nForce,
    mergedN,    \* Syncer.lastByInstance: number of remote snapshots merged in this run (sync.go:561)
    committedN, \* cleaner.Worker.lastByInstance: what the cleaner was told is contained in an own stored snapshot (send.go:265)
    act
vars == <<main, store, appDBI, shadowDBI, lastTxn, clock, bucket, ownOld, ownDelivered, avail, pc, lastSynced,
          hasDataAtStart, hasSnapshots, waitingOwn, cur, ret, appLast, uncaptured, unpub, sendCover,
          appSinceSend, sentSinceStart, infoAtCheck, nApp, nRemote, iter, nCrash, remoteSeen, mergedN, committedN,
          otherOld, otherDelivered, waitingOther, tListing, tStore, tPass, due, odSeen, nForce, act>>

(* versions a remote snapshot may carry for a key: older than every local stamp, or stamped "now"   *)
(* (shadow mode: all instances share one monotone clock; native mode: application chosen, 50 is     *)
(* beyond every local stamp), live or deleted.                                                       *)
RemoteNow == IF Native THEN 50 ELSE clock + 1
RemoteVers == {Live(2, 2), Live(RemoteNow, 2), Tomb(RemoteNow)}

NoCur == [w |-> 0, lc |-> FALSE, empty |-> FALSE, has |-> FALSE, img |-> <<>>, own |-> FALSE, oth |-> FALSE, nodbi |-> FALSE, txn |-> 0]
EmptyStore == [k \in Keys |-> Absent]
EmptyMain  == [k \in Keys |-> -1]
Mirror(s) == IF MirrorDropsEmpty
             THEN [k \in Keys |-> IF LiveProjection(s)[k] = 0 THEN -1 ELSE LiveProjection(s)[k]]
             ELSE LiveProjection(s)
AppView == IF Native THEN LiveProjection(store) ELSE main

---------------------------------------------------------------------------
(* Initial states: a fresh or a pre-populated LMDB, with or without an own *)
(* snapshot from a previous life in the bucket.                            *)
DataMain  == [k \in Keys |-> IF k = CHOOSE x \in Keys : TRUE THEN 1 ELSE -1]
DataStore == [k \in Keys |-> IF k = CHOOSE x \in Keys : TRUE THEN Live(3, 1) ELSE Absent]
OldImg    == [k \in Keys |-> IF k = CHOOSE x \in Keys : TRUE THEN Live(4, 2) ELSE Absent]
OtherImg  == [k \in Keys |-> IF k = CHOOSE x \in Keys : TRUE THEN Live(5, 1) ELSE Absent]

Init ==
    \E ss \in StartStates, oth \in OtherAtStart :
      LET data == ss \in {"data", "data+ownsnap"}
          own  == ss \in {"ownsnap", "data+ownsnap"} IN
      /\ main = IF data /\ ~Native THEN DataMain ELSE EmptyMain
      /\ store = IF data /\ Native THEN DataStore ELSE EmptyStore
      /\ appDBI = data /\ shadowDBI = FALSE
      /\ lastTxn = IF data THEN 1 ELSE 0
      /\ clock = 10
      /\ bucket = <<>>
      /\ ownOld = IF own THEN [has |-> TRUE, img |-> OldImg] ELSE [has |-> FALSE, img |-> EmptyStore]
      /\ ownDelivered = FALSE
      /\ avail = <<>>
      /\ pc = "boot" /\ lastSynced = 0 /\ hasDataAtStart = FALSE /\ hasSnapshots = FALSE /\ waitingOwn = FALSE
      /\ cur = NoCur /\ ret = "start"
      /\ appLast = IF data /\ ~Native THEN DataMain ELSE EmptyMain
      /\ uncaptured = IF data /\ ~Native THEN {CHOOSE x \in Keys : TRUE} ELSE {}
      /\ unpub = IF data THEN {[k |-> CHOOSE x \in Keys : TRUE, v |-> 1, txn |-> 1]} ELSE {}
      /\ sendCover = {}
      /\ appSinceSend = FALSE /\ sentSinceStart = FALSE /\ infoAtCheck = 0
      /\ nApp = 0 /\ nRemote = 0 /\ iter = 0 /\ nCrash = 0 /\ mergedN = 0 /\ committedN = 0
      /\ remoteSeen = IF oth THEN {<<k, OtherImg[k]>> : k \in {x \in Keys : OtherImg[x] # Absent}} ELSE {}
      /\ otherOld = IF oth THEN [has |-> TRUE, img |-> OtherImg] ELSE [has |-> FALSE, img |-> EmptyStore]
      /\ otherDelivered = FALSE /\ waitingOther = FALSE
      /\ tListing = FALSE /\ tStore = FALSE /\ tPass = FALSE
      /\ due = FALSE /\ odSeen = FALSE /\ nForce = 0
      /\ act = [name |-> "init", start |-> ss, other |-> oth]

---------------------------------------------------------------------------
(* An LS write transaction: returns the new values of the LMDB variables.  *)
(* capture (mainToShadow) creates the shadow DBI when the application DBI  *)
(* exists; merging a snapshot creates missing DBIs; the transaction is     *)
(* recorded iff something changed.                                         *)
Capture(ts) == IF Native \/ ~appDBI THEN store ELSE MainToShadow(main, store, ts)

LSTxn(doCapture, ts, merge, img, mirror) ==
    LET s1  == IF doCapture THEN Capture(ts) ELSE store
        sh1 == shadowDBI \/ (doCapture /\ ~Native /\ appDBI)
        s2  == IF merge THEN MergeImage(s1, img, [fmt |-> 3, cutoff |-> 0, defTS |-> 0]) ELSE s1
        ad2 == appDBI \/ merge
        sh2 == sh1 \/ (merge /\ ~Native)
        m2  == IF mirror /\ ~Native THEN Mirror(s2) ELSE main
        dirty == s2 # store \/ m2 # main \/ ad2 # appDBI \/ sh2 # shadowDBI
        \* shadowToMain needs a shadow DBI for every application DBI (shadow.go:123)
        fails == mirror /\ ~Native /\ ad2 /\ ~sh2
    IN [store |-> s2, main |-> m2, appDBI |-> ad2, shadowDBI |-> sh2, dirty |-> dirty, fails |-> fails]

ApplyTxn(t) ==
    /\ store' = t.store /\ main' = t.main /\ appDBI' = t.appDBI /\ shadowDBI' = t.shadowDBI
    /\ lastTxn' = IF t.dirty THEN lastTxn + 1 ELSE lastTxn

NoLMDBChange == UNCHANGED <<main, store, appDBI, shadowDBI, lastTxn>>
NoHist == UNCHANGED <<appLast, uncaptured, unpub, sendCover, appSinceSend, sentSinceStart, infoAtCheck>>
NoRS == UNCHANGED remoteSeen
NoMC == UNCHANGED <<mergedN, committedN>>
NoEnv == UNCHANGED <<bucket, ownOld, ownDelivered, otherOld, otherDelivered, otherOld, otherDelivered, avail, nApp, nRemote, nCrash>>
NoT == UNCHANGED <<tListing, tStore, tPass>>
NoF == UNCHANGED <<due, odSeen, nForce>>
AllLoaded == ~waitingOwn /\ ~waitingOther

(* history bookkeeping of a capture *)
CaptureHist(did) == uncaptured' = IF did /\ ~Native THEN {} ELSE uncaptured

---------------------------------------------------------------------------
(* The loop, one action per stretch between two yield points.              *)

Boot ==   \* Sync(): env.Info(), cleaner, initial listing  -> start.listed
    /\ pc = "boot"
    /\ hasDataAtStart' = (lastTxn > 0)
    /\ hasSnapshots' = (ownOld.has \/ Len(bucket) > 0 \/ otherOld.has)
    /\ waitingOwn' = (ownOld.has \/ Len(bucket) > 0)
    /\ waitingOther' = otherOld.has                   \* sync.go:116-125: every instance seen in the listing
    /\ tListing' = TRUE /\ UNCHANGED <<tStore, tPass>>  \* sync.go:96
    /\ lastSynced' = 0
    /\ pc' = "start.listed"
    /\ act' = [name |-> "run", to |-> "start.listed"]
    /\ NoLMDBChange /\ NoHist /\ NoEnv /\ UNCHANGED <<clock, cur, ret, iter>>

StartCapture ==   \* sync.go:126-143, timestamp 1
    /\ pc = "start.listed"
    /\ LET do == hasDataAtStart /\ ~Native
           t  == LSTxn(do, 1, FALSE, <<>>, FALSE) IN
       /\ ApplyTxn(t)
       /\ CaptureHist(do)
    /\ pc' = "start.captured"
    /\ act' = [name |-> "run", to |-> "start.captured"]
    /\ UNCHANGED <<clock, bucket, ownOld, ownDelivered, otherOld, otherDelivered, avail, lastSynced, hasDataAtStart, hasSnapshots, waitingOwn, waitingOther, cur, ret,
                   appLast, unpub, sendCover, appSinceSend, sentSinceStart, infoAtCheck, nApp, nRemote, iter, nCrash>>

(* SendOnce's transaction (send.go:48-125): native = read transaction. *)
SendTxnFrom(from, r) ==
    /\ pc = from
    /\ LET now == clock + 1
           t   == IF Native THEN LSTxn(FALSE, 0, FALSE, <<>>, FALSE) ELSE LSTxn(TRUE, now, FALSE, <<>>, FALSE)
           w   == IF Native THEN lastTxn ELSE lastTxn + 1 IN
       /\ ApplyTxn(t)
       /\ clock' = IF Native THEN clock ELSE now
       /\ cur' = [NoCur EXCEPT !.w = w, !.empty = ~t.dirty, !.img = Image(t.store)]
       /\ CaptureHist(TRUE)
       /\ sendCover' = unpub
    /\ ret' = r
    /\ pc' = "send.txnDone"
    /\ act' = [name |-> "run", to |-> "send.txnDone", w |-> cur'.w]
    /\ UNCHANGED <<bucket, ownOld, ownDelivered, otherOld, otherDelivered, avail, lastSynced, hasDataAtStart, hasSnapshots, waitingOwn, waitingOther,
                   appLast, unpub, appSinceSend, sentSinceStart, infoAtCheck, nApp, nRemote, iter, nCrash>>

StartSendOrSkip ==
    \/ /\ hasDataAtStart /\ ~hasSnapshots
       /\ SendTxnFrom("start.captured", "start") /\ NoT
    \/ /\ pc = "start.captured" /\ ~(hasDataAtStart /\ ~hasSnapshots)
       /\ pc' = "start.sent"
       /\ act' = [name |-> "run", to |-> "start.sent"]
       /\ tStore' = (tStore \/ ~hasDataAtStart) /\ UNCHANGED <<tListing, tPass>>   \* sync.go:166-169
       /\ NoLMDBChange /\ NoHist /\ NoEnv
       /\ UNCHANGED <<clock, lastSynced, hasDataAtStart, hasSnapshots, waitingOwn, waitingOther, cur, ret, iter>>

SendInfo ==   \* send.go:139-149
    /\ pc = "send.txnDone"
    /\ cur' = [cur EXCEPT !.txn = IF lastTxn < cur.w THEN lastTxn ELSE cur.w]
    /\ pc' = "send.infoRead"
    /\ act' = [name |-> "run", to |-> "send.infoRead", txn |-> cur'.txn]
    /\ NoLMDBChange /\ NoHist /\ NoEnv
    /\ UNCHANGED <<clock, lastSynced, hasDataAtStart, hasSnapshots, waitingOwn, waitingOther, ret, iter>>

Store(fails) ==   \* send.go:193-234: `fails` Store calls fail first
    /\ pc = "send.infoRead" /\ ~ReceiveOnly
    /\ fails \in 0..RetryCount
    /\ IF fails < RetryCount
       THEN /\ bucket' = Append(bucket, [img |-> cur.img, txn |-> cur.txn])
            /\ unpub' = unpub \ sendCover
            /\ appSinceSend' = (unpub \ sendCover # {})
            /\ sentSinceStart' = TRUE
            /\ pc' = "send.stored"
       ELSE /\ pc' = "dead"      \* SendOnce gives up, syncLoop returns the error
            /\ UNCHANGED <<bucket, unpub, appSinceSend, sentSinceStart>>
    /\ act' = [name |-> "run", to |-> pc', fails |-> fails]
    /\ NoLMDBChange
    /\ UNCHANGED <<clock, ownOld, ownDelivered, otherOld, otherDelivered, avail, lastSynced, hasDataAtStart, hasSnapshots, waitingOwn, waitingOther, cur, ret,
                   appLast, uncaptured, sendCover, infoAtCheck, nApp, nRemote, iter, nCrash>>

SendSkipStore ==   \* send.go:153-158: receive-only - return the (adjusted) transaction id, nothing is stored
    /\ pc = "send.infoRead" /\ ReceiveOnly
    /\ lastSynced' = cur.txn
    /\ pc' = IF ret = "start" THEN "start.sent" ELSE "loop.sleep"
    /\ tStore' = TRUE /\ tListing' = tListing
    /\ tPass' = (tPass \/ (ret = "loop" /\ AllLoaded))
    /\ cur' = NoCur
    /\ act' = [name |-> "run", to |-> pc', lastSynced |-> lastSynced']
    /\ NoLMDBChange /\ NoHist /\ NoEnv
    /\ UNCHANGED <<clock, hasDataAtStart, hasSnapshots, waitingOwn, waitingOther, ret, iter>>

SendCommitted ==
    /\ pc = "send.stored"
    /\ pc' = "send.committed"
    /\ committedN' = mergedN /\ mergedN' = mergedN
    /\ due' = FALSE /\ UNCHANGED <<odSeen, nForce>>        \* send.go:262-264: lastSnapshotTime = now
    /\ act' = [name |-> "run", to |-> "send.committed"]
    /\ NoLMDBChange /\ NoHist /\ NoEnv
    /\ UNCHANGED <<clock, lastSynced, hasDataAtStart, hasSnapshots, waitingOwn, waitingOther, cur, ret, iter>>

SendReturn ==   \* back in syncLoop: lastSyncedTxnID = actualTxnID
    /\ pc = "send.committed"
    /\ lastSynced' = cur.txn
    /\ pc' = IF ret = "start" THEN "start.sent" ELSE "loop.sleep"
    /\ tStore' = TRUE /\ tListing' = tListing               \* sync.go:159 / 329
    /\ tPass' = (tPass \/ (ret = "loop" /\ AllLoaded))       \* sync.go:338-340
    /\ cur' = NoCur
    /\ act' = [name |-> "run", to |-> pc', lastSynced |-> lastSynced']
    /\ NoLMDBChange /\ NoHist /\ NoEnv
    /\ UNCHANGED <<clock, hasDataAtStart, hasSnapshots, waitingOwn, waitingOther, ret, iter>>

Exit ==   \* sync.go:345-348: only_once and nothing left to wait for
    /\ pc = "loop.sleep" /\ OnlyOnce /\ AllLoaded
    /\ pc' = "exit"
    /\ act' = [name |-> "run", to |-> "exit"]
    /\ NoLMDBChange /\ NoHist /\ NoEnv
    /\ UNCHANGED <<clock, lastSynced, hasDataAtStart, hasSnapshots, waitingOwn, waitingOther, cur, ret, iter>>

ToLoopTop ==
    /\ pc \in {"start.sent", "loop.sleep"}
    /\ (pc = "loop.sleep" => iter < MaxIter /\ ~(OnlyOnce /\ AllLoaded))
    /\ iter' = IF pc = "loop.sleep" THEN iter + 1 ELSE iter
    /\ due' = (IF pc = "start.sent" THEN FALSE ELSE due) /\ UNCHANGED <<odSeen, nForce>>   \* sync.go:173: first not due to interval
    /\ pc' = "loop.top"
    /\ act' = [name |-> "run", to |-> "loop.top"]
    /\ NoLMDBChange /\ NoHist /\ NoEnv
    /\ UNCHANGED <<clock, lastSynced, hasDataAtStart, hasSnapshots, waitingOwn, waitingOther, cur, ret>>

NextUpdate ==   \* r.Next(): receiver snapshots first, then other updates
    /\ pc \in {"loop.top", "load.done"}
    /\ IF avail # <<>>
       THEN /\ cur' = [NoCur EXCEPT !.has = TRUE, !.img = Head(avail).img, !.own = Head(avail).own, !.oth = Head(avail).oth, !.nodbi = Head(avail).nodbi]
            /\ avail' = Tail(avail)
       ELSE /\ cur' = NoCur /\ avail' = avail
    /\ pc' = "loop.next"
    /\ act' = [name |-> "run", to |-> "loop.next", got |-> avail # <<>>]
    /\ NoLMDBChange /\ NoHist
    /\ UNCHANGED <<clock, bucket, ownOld, ownDelivered, otherOld, otherDelivered, lastSynced, hasDataAtStart, hasSnapshots, waitingOwn, waitingOther, ret, iter, nApp, nRemote, nCrash>>

LoadTxn ==   \* sync.go:362-518
    /\ pc = "loop.next" /\ cur.has
    /\ LET w   == lastTxn + 1
           lc  == lastSynced < w - 1
           now == clock + 1
           t   == LSTxn(lc /\ ~Native, now, ~cur.nodbi, cur.img, TRUE) IN   \* an update without any DBI creates and merges nothing; capture and mirror still run
       IF t.fails
       THEN /\ pc' = "dead" /\ NoLMDBChange /\ UNCHANGED <<clock, cur, uncaptured>>
            /\ act' = [name |-> "run", to |-> "dead"]
       ELSE /\ ApplyTxn(t)
            /\ clock' = IF Native THEN clock ELSE now
            /\ cur' = [cur EXCEPT !.w = w, !.lc = lc, !.empty = ~t.dirty]
            /\ CaptureHist(lc)
            /\ pc' = "load.txnDone"
            /\ act' = [name |-> "run", to |-> "load.txnDone", w |-> w, lc |-> lc]
    /\ waitingOwn' = IF cur.own THEN FALSE ELSE waitingOwn     \* sync.go:213-219
    /\ waitingOther' = IF cur.oth THEN FALSE ELSE waitingOther
    /\ UNCHANGED <<bucket, ownOld, ownDelivered, otherOld, otherDelivered, avail, lastSynced, hasDataAtStart, hasSnapshots, ret,
                   appLast, unpub, sendCover, appSinceSend, sentSinceStart, infoAtCheck, nApp, nRemote, iter, nCrash>>

NoUpdate ==   \* inner loop ends; CleanDisappeared, overdue check -> check.before
    /\ pc = "loop.next" /\ ~cur.has
    /\ odSeen' = (MaxForce > 0 /\ due) /\ UNCHANGED <<due, nForce>>
    /\ pc' = "check.before"
    /\ act' = [name |-> "run", to |-> "check.before"]
    /\ NoLMDBChange /\ NoHist /\ NoEnv
    /\ UNCHANGED <<clock, lastSynced, hasDataAtStart, hasSnapshots, waitingOwn, waitingOther, cur, ret, iter>>

LoadInfo ==   \* sync.go:525-536
    /\ pc = "load.txnDone"
    /\ cur' = [cur EXCEPT !.txn = IF lastTxn < cur.w THEN lastTxn ELSE cur.w]
    /\ pc' = "load.infoRead"
    /\ act' = [name |-> "run", to |-> "load.infoRead", txn |-> cur'.txn]
    /\ mergedN' = (IF cur.own \/ cur.oth THEN mergedN ELSE mergedN + 1) /\ committedN' = committedN   \* counted per instance: the hook's instance
    /\ NoLMDBChange /\ NoHist /\ NoEnv
    /\ UNCHANGED <<clock, lastSynced, hasDataAtStart, hasSnapshots, waitingOwn, waitingOther, ret, iter>>

LoadDone ==   \* sync.go:241-248
    /\ pc = "load.infoRead"
    /\ lastSynced' = IF cur.lc THEN lastSynced ELSE cur.txn
    /\ cur' = NoCur
    /\ pc' = "load.done"
    /\ act' = [name |-> "run", to |-> "load.done", lastSynced |-> lastSynced']
    /\ NoLMDBChange /\ NoHist /\ NoEnv
    /\ UNCHANGED <<clock, hasDataAtStart, hasSnapshots, waitingOwn, waitingOther, ret, iter>>

CheckRead ==   \* sync.go:286-289
    /\ pc = "check.before"
    /\ infoAtCheck' = lastTxn
    /\ pc' = "check.read"
    /\ act' = [name |-> "run", to |-> "check.read", info |-> lastTxn, lastSynced |-> lastSynced]
    /\ NoLMDBChange /\ NoEnv
    /\ UNCHANGED <<clock, lastSynced, hasDataAtStart, hasSnapshots, waitingOwn, waitingOther, cur, ret, iter,
                   appLast, uncaptured, unpub, sendCover, appSinceSend, sentSinceStart>>

\* sync.go:294-314; the inner guard (hasDataAtStart || lastSyncedTxnID > 0) only matters for a forced snapshot of an empty LMDB
WillSend == (infoAtCheck > lastSynced \/ odSeen) /\ ~waitingOwn /\ (hasDataAtStart \/ infoAtCheck > 0)

Decide ==
    \/ /\ WillSend
       /\ SendTxnFrom("check.read", "loop") /\ NoT
    \/ /\ pc = "check.read" /\ ~WillSend
       /\ pc' = "loop.sleep"
       /\ tPass' = (tPass \/ AllLoaded) /\ UNCHANGED <<tListing, tStore>>
       /\ act' = [name |-> "run", to |-> "loop.sleep", lastSynced |-> lastSynced]
       /\ NoLMDBChange /\ NoHist /\ NoEnv
       /\ UNCHANGED <<clock, lastSynced, hasDataAtStart, hasSnapshots, waitingOwn, waitingOther, cur, ret, iter>>

Run == \/ (Boot \/ StartSendOrSkip \/ SendReturn \/ SendSkipStore \/ Decide) /\ NoMC /\ NoF
       \/ (StartCapture \/ SendInfo \/ (\E f \in 0..RetryCount : Store(f))
           \/ Exit \/ NextUpdate \/ LoadTxn
           \/ LoadDone \/ CheckRead) /\ NoMC /\ NoT /\ NoF
       \/ (ToLoopTop \/ NoUpdate) /\ NoMC /\ NoT
       \/ SendCommitted /\ NoT
       \/ LoadInfo /\ NoT /\ NoF

---------------------------------------------------------------------------
(* Environment.                                                            *)
Parked == pc \notin {"boot", "dead", "exit"}
InEmptyWindow == pc \in {"load.txnDone", "send.txnDone"} /\ cur.empty /\ (pc = "send.txnDone" => ~Native)

AppCommit(k, v) ==   \* v = -1: delete
    /\ pc \notin {"dead", "exit"} /\ nApp < MaxApp
    /\ (InEmptyWindow => AllowWindow)
    /\ v \in AppVals \cup {-1}
    /\ AppView[k] # v
    /\ LET now == clock + 1 IN
       /\ IF Native
          THEN /\ store' = [store EXCEPT ![k] = IF v = -1 THEN Tomb(now) ELSE Live(now, v)]
               /\ main' = main /\ clock' = now
          ELSE /\ main' = [main EXCEPT ![k] = v]
               /\ store' = store /\ clock' = clock
       /\ unpub' = unpub \cup {[k |-> k, v |-> v, txn |-> lastTxn + 1]}
    /\ appDBI' = TRUE /\ shadowDBI' = shadowDBI
    /\ lastTxn' = lastTxn + 1
    /\ appLast' = [appLast EXCEPT ![k] = v]
    /\ uncaptured' = IF Native THEN uncaptured ELSE uncaptured \cup {k}
    /\ appSinceSend' = TRUE
    /\ nApp' = nApp + 1
    /\ act' = [name |-> "app", k |-> k, v |-> v, window |-> InEmptyWindow, at |-> pc]
    /\ UNCHANGED <<bucket, ownOld, ownDelivered, otherOld, otherDelivered, avail, pc, lastSynced, hasDataAtStart, hasSnapshots, waitingOwn, waitingOther, cur, ret,
                   sendCover, sentSinceStart, infoAtCheck, nRemote, iter, nCrash>>

Inject(img, nodbi) ==   \* a remote snapshot arrives through hooks.OtherUpdateSource; nodbi: it holds no DBI at all
    /\ Parked /\ nRemote < MaxRemote /\ Len(avail) < 2
    /\ (nodbi => img = <<>>)
    /\ avail' = Append(avail, [own |-> FALSE, oth |-> FALSE, img |-> img, nodbi |-> nodbi])
    /\ nRemote' = nRemote + 1
    /\ act' = [name |-> "inject", img |-> img, nodbi |-> nodbi]
    /\ clock' = IF Native THEN clock ELSE clock + 1
    /\ remoteSeen' = remoteSeen \cup {<<k, img[k]>> : k \in DOMAIN img}
    /\ NoLMDBChange /\ NoHist
    /\ UNCHANGED <<bucket, ownOld, ownDelivered, otherOld, otherDelivered, pc, lastSynced, hasDataAtStart, hasSnapshots, waitingOwn, waitingOther, cur, ret, iter, nApp, nCrash>>

NewestOwnImg == IF Len(bucket) > 0 THEN bucket[Len(bucket)].img ELSE Image(ownOld.img)
DeliverOwn ==   \* the downloader finishes loading the instance's newest own snapshot (start-up only)
    /\ Parked /\ waitingOwn /\ ~ownDelivered
    /\ ~\E i \in 1..Len(avail) : avail[i].oth      \* one downloaded snapshot at a time (Next() picks among several in map order)
    /\ avail' = <<[own |-> TRUE, oth |-> FALSE, img |-> NewestOwnImg, nodbi |-> FALSE]>> \o avail     \* receiver snapshots have priority
    /\ ownDelivered' = TRUE
    /\ act' = [name |-> "deliverown"]
    /\ NoLMDBChange /\ NoHist
    /\ UNCHANGED <<clock, bucket, ownOld, otherOld, otherDelivered, pc, lastSynced, hasDataAtStart, hasSnapshots, waitingOwn, waitingOther, cur, ret, iter, nApp, nRemote, nCrash>>

DeliverOther ==   \* the downloader finishes loading the other instance's snapshot (start-up listing only: poll interval = never)
    /\ Parked /\ waitingOther /\ ~otherDelivered
    /\ ~\E i \in 1..Len(avail) : avail[i].own
    /\ avail' = <<[own |-> FALSE, oth |-> TRUE, img |-> Image(otherOld.img), nodbi |-> FALSE]>> \o avail
    /\ otherDelivered' = TRUE
    /\ act' = [name |-> "deliverother"]
    /\ NoLMDBChange /\ NoHist
    /\ UNCHANGED <<clock, bucket, ownOld, ownDelivered, otherOld, pc, lastSynced, hasDataAtStart, hasSnapshots, waitingOwn, waitingOther, cur, ret, iter, nApp, nRemote, nCrash>>

IntervalPasses ==   \* time: storage_force_snapshot_interval has passed since the last own snapshot
    /\ Parked /\ nForce < MaxForce /\ ~due /\ pc \notin {"start.listed", "start.captured", "start.sent"}
    /\ due' = TRUE /\ nForce' = nForce + 1 /\ odSeen' = odSeen
    /\ act' = [name |-> "interval"]
    /\ NoLMDBChange /\ NoHist /\ NoEnv
    /\ UNCHANGED <<clock, pc, lastSynced, hasDataAtStart, hasSnapshots, waitingOwn, waitingOther, cur, ret, iter>>

Crash(wipe) ==   \* stop at the yield point, restart the process (LMDB kept or emptied)
    /\ pc # "boot" /\ nCrash < MaxCrash
    /\ nCrash' = nCrash + 1
    /\ pc' = "boot" /\ lastSynced' = 0 /\ cur' = NoCur /\ ret' = "start" /\ avail' = <<>>
    /\ hasDataAtStart' = FALSE /\ hasSnapshots' = FALSE /\ waitingOwn' = FALSE /\ waitingOther' = FALSE
    /\ ownDelivered' = FALSE /\ ownOld' = ownOld /\ otherDelivered' = FALSE /\ otherOld' = otherOld
    /\ tListing' = FALSE /\ tStore' = FALSE /\ tPass' = FALSE
    /\ due' = FALSE /\ odSeen' = FALSE /\ nForce' = nForce
    /\ IF wipe
       THEN /\ main' = EmptyMain /\ store' = EmptyStore /\ appDBI' = FALSE /\ shadowDBI' = FALSE /\ lastTxn' = 0
            /\ appLast' = EmptyMain /\ uncaptured' = {} /\ unpub' = {}
       ELSE /\ NoLMDBChange /\ UNCHANGED <<appLast, uncaptured, unpub>>
    /\ sentSinceStart' = FALSE /\ appSinceSend' = appSinceSend /\ sendCover' = {} /\ infoAtCheck' = 0
    /\ mergedN' = 0 /\ committedN' = 0
    /\ act' = [name |-> "crash", wipe |-> wipe, at |-> pc]
    /\ UNCHANGED <<clock, bucket, iter, nApp, nRemote>>

RemoteImgs == [Keys -> RemoteVers \cup {Absent}]
Env == \/ \E k \in Keys, v \in AppVals \cup {-1} : AppCommit(k, v) /\ NoRS /\ NoMC /\ NoT /\ NoF
       \/ \E img \in RemoteImgs, nd \in BOOLEAN : Inject(Image(img), nd) /\ NoMC /\ NoT /\ NoF
       \/ (DeliverOwn \/ DeliverOther) /\ NoRS /\ NoMC /\ NoT /\ NoF
       \/ IntervalPasses /\ NoRS /\ NoMC /\ NoT
       \/ \E w \in BOOLEAN : Crash(w) /\ NoRS

Next == (Run /\ NoRS) \/ Env
Spec == Init /\ [][Next]_vars

---------------------------------------------------------------------------
(* Monitors.                                                               *)

(* C03 shadow mode: while an application change is not captured, the       *)
(* application DBI still holds exactly what the application committed.     *)
NoLocalLoss == Native \/ \A k \in uncaptured : main[k] = appLast[k]

(* C03/C02 both modes: no LS step replaces a stored version by one that    *)
(* does not beat it.                                                       *)
LSNeverBackwards ==
    [][(act'.name = "run" /\ act'.to # "start.captured") => \A k \in Keys : store'[k] # store[k] => Beats(store'[k], store[k])]_vars

(* C09: when the loop reaches its sleep (not waiting for its own old       *)
(* snapshot) every application commit recorded up to the LastTxnID it read *)
(* at the change check is covered by a stored snapshot.                    *)
PublishedWhenIdle ==
    (pc = "loop.sleep" /\ ~waitingOwn /\ ~ReceiveOnly) => {c \in unpub : c.txn <= infoAtCheck} = {}

(* C10: the loop decides to upload only after an application commit since  *)
(* the last upload, or for the first upload after start-up.                *)
NoEchoUpload ==
    [][(pc = "check.read" /\ pc' = "send.txnDone") => (appSinceSend \/ ~sentSinceStart \/ odSeen)]_vars
(* C09/C10: a forced snapshot is taken in the iteration that finds the interval passed (unless the instance still *)
(* waits for its own old snapshot or has nothing at all), and the interval restarts with it                       *)
ForcedWhenDue ==
    [][(pc = "check.read" /\ act'.name = "run" /\ odSeen /\ ~waitingOwn /\ (hasDataAtStart \/ infoAtCheck > 0)) => pc' = "send.txnDone"]_vars

(* C05: nothing is stored before the own old snapshot has been merged.     *)
NoUploadBeforeOwnMerged ==
    [][pc' = "send.stored" => ~waitingOwn]_vars

(* C05 (one instance): what the newest own snapshot holds never goes back: *)
(* for every key the newest snapshot after a Store dominates the previous  *)
(* newest one (including the one from a previous life).                    *)
PrevNewest == IF Len(bucket) > 0 THEN bucket[Len(bucket)].img ELSE IF ownOld.has THEN Image(ownOld.img) ELSE <<>>
BucketMonotone ==
    [][pc' = "send.stored" =>
        LET new == bucket'[Len(bucket')].img
            old == PrevNewest IN
        \A k \in DOMAIN old : \/ k \in DOMAIN new /\ BeatsOrEq(new[k], old[k])
                              \/ <<k, old[k]>> \in remoteSeen   \* still held by the instance it came from
        ]_vars

(* C05/C12: the cleaner is told about a merged remote snapshot only after an own snapshot containing it was stored *)
CommittedOnlyAfterStore == [][committedN' # committedN => (pc = "send.stored" \/ act'.name = "crash")]_vars

(* Readiness (status/starttracker, the health endpoint's "startup" check).  *)
Ready == tListing /\ tStore /\ tPass
(* ready only after the newest snapshot of every instance listed at start-up - the own one included - has been merged *)
ReadyMeansLoaded == tPass => (pc # "boot" /\ AllLoaded)
(* an instance that started with data is ready only after it has published a snapshot in this run *)
ReadyMeansPublished == (tStore /\ hasDataAtStart /\ ~ReceiveOnly) => sentSinceStart
(* readiness is never taken back while the process runs *)
ReadyStable == [][(Ready /\ act'.name # "crash") => Ready']_vars
(* only_once: the loop returns only when nothing is left to wait for and every commit it saw is published *)
ExitOnlyWhenDone == pc = "exit" => (AllLoaded /\ {c \in unpub : c.txn <= infoAtCheck} = {})

(* C12: a receive-only instance never stores anything *)
ReceiveOnlyStoresNothing == ReceiveOnly => bucket = <<>>

TypeOK == /\ lastTxn \in Nat /\ lastSynced \in Nat
          /\ \A k \in Keys : main[k] \in {-1} \cup Val
=============================================================================
