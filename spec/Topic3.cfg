CONSTANTS
  Subs = {"A", "B", "C"}
  Buffered = {"B"}
  MaxPublish = 2
  MaxCalls = 6
  Handlers = {}
  WithDone = TRUE
SPECIFICATION Spec
INVARIANTS CloseNeverWedges MutexSane
CHECK_DEADLOCK FALSE
