----------------------------- MODULE FleetTrace -----------------------------
(***************************************************************************)
(* Trace validation of free-running fleets (binding V for the protocol     *)
(* level): every LMDB write transaction of a real instance - application   *)
(* commits, LoadOnce, SendOnce - was logged with its transaction id while  *)
(* three real Sync loops ran freely with receivers, cleaners and random    *)
(* application writers.  Per instance, the log ordered by transaction id   *)
(* must be explained by the data-plane operators of LSData (Merge, the two *)
(* mirror passes, Image): after each logged read of the instance's content *)
(* the specification's state must equal it, and every stored blob must be  *)
(* the image of the capturing transaction.  Timestamps are ranks of the    *)
(* real nanosecond values.                                                 *)
(***************************************************************************)
EXTENDS LSData, Json

CONSTANTS Keys, Native, MirrorDropsEmpty

Data == JsonDeserialize("fleet_trace.json")
Traces == Data.traces
NT == Len(Traces)

VARIABLES db, app, t, l
fvars == <<db, app, t, l>>

EmptyStore == [k \in Keys |-> Absent]
EmptyApp == [k \in Keys |-> -1]
Mirror(s) == IF MirrorDropsEmpty
             THEN [k \in Keys |-> IF LiveProjection(s)[k] = 0 THEN -1 ELSE LiveProjection(s)[k]]
             ELSE LiveProjection(s)
Img(f) == [k \in {kk \in Keys : ~IsAbsent(f[kk])} |-> f[k]]      \* logged images carry Absent for missing keys

Init == db = EmptyStore /\ app = EmptyApp /\ t = 1 /\ l = 1

Ev == Traces[t][l]
Step(e) ==
    CASE e.kind = "app" ->
            IF Native THEN db' = [db EXCEPT ![e.k] = e.ver] /\ app' = app
                      ELSE app' = [app EXCEPT ![e.k] = e.val] /\ db' = db
      [] e.kind = "merge" ->
            LET d == IF e.lc /\ ~Native THEN MainToShadow(app, db, e.now) ELSE db
                m == MergeImage(d, Img(e.img), [fmt |-> 3, cutoff |-> 0, defTS |-> 0]) IN
            /\ db' = m
            /\ app' = IF Native THEN app ELSE Mirror(m)
      [] e.kind = "sendtxn" ->
            LET d == IF Native THEN db ELSE MainToShadow(app, db, e.now) IN
            /\ db' = d /\ app' = app
            /\ (e.stored => Image(d) = Img(e.img))        \* C06: the blob is the image of this transaction
      [] e.kind = "proj" ->
            /\ db = e.db /\ (Native \/ app = e.app)
            /\ UNCHANGED <<db, app>>

Consume == /\ t <= NT /\ l <= Len(Traces[t])
           /\ Step(Ev)
           /\ l' = l + 1 /\ t' = t
NextTrace == /\ t <= NT /\ l = Len(Traces[t]) + 1
             /\ t' = t + 1 /\ l' = 1 /\ db' = EmptyStore /\ app' = EmptyApp
FNext == Consume \/ NextTrace
FSpec == Init /\ [][FNext]_fvars

NotAccepted == t <= NT
(* where validation stopped, for diagnosing a rejection *)
Progress == TLCSet(1, IF TLCGet(1) < t * 100000 + l THEN t * 100000 + l ELSE TLCGet(1))
ASSUME TLCSet(1, 0)
Report == TLCGet(1) >= 0 /\ PrintT(<<"fleet-progress", TLCGet(1)>>)
=============================================================================
