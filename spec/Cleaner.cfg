CONSTANTS
  Inst = {1, 2}
  MaxTime = 5
  MaxSnaps = 2
  MustKeep = 1
  RemoveOld = 2
  MaxRuns = 2
SPECIFICATION Spec
PROPERTIES KeepsYoung KeepsNewest FailSafe Bounded NeverEmptiesLive
CHECK_DEADLOCK FALSE
