CONSTANTS
  MaxTS = 3
  MaxVal = 2
  Cutoffs = {0, 2, 4}
  DefTSs = {0, 3}
  Fmts = {1, 2, 3}
  MaxMerges = 3
SPECIFICATION Spec
INVARIANTS TypeOK RegisterIsWinner
PROPERTIES NeverBackwards
CHECK_DEADLOCK FALSE
