CONSTANTS
  NKeys = 4
  MaxLen = 4
  MaxUnsortedLen = 2
SPECIFICATION Spec
INVARIANTS MatchesRef LoopSane
CHECK_DEADLOCK FALSE
