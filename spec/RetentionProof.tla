--------------------------- MODULE RetentionProof ---------------------------
(* Unbounded lift of Retention.tla's LoadNotLonger / LoadAtLeastQuarter / NoBounceArith: *)
(* for every retention r >= 0 and every cut-off c, in integers.                         *)
EXTENDS Integers, TLAPS

MinOf(a, b) == IF a < b THEN a ELSE b
RDMC(r, c) == IF c > 0 THEN r - MinOf(c, (r * 3) \div 4) ELSE r - (r \div 100)

THEOREM LoadNotLonger == \A r \in Nat, c \in Int : RDMC(r, c) <= r
  BY SMT DEF RDMC, MinOf

THEOREM LoadAtLeastQuarter == \A r \in Nat, c \in Int : 4 * RDMC(r, c) >= r
  BY SMT DEF RDMC, MinOf

THEOREM NoBounceArith ==
    \A r \in Nat, c \in Int, ts \in Int, tl \in Int : ts <= tl => (ts - r) <= (tl - RDMC(r, c))
  BY SMT DEF RDMC, MinOf
=============================================================================
