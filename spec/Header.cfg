CONSTANTS
  Versions = {0, 1, 2, 255}
  FlagBytes = {0, 1, 2, 3, 128, 255}
  NumExtras = {0, 1, 2, 255, 256, 8191, 8192, 8193, 65535}
  NegTails = {1, 8, 9}
  PosTails = {0, 1, 5, 300}
INIT Init
NEXT Next
CHECK_DEADLOCK FALSE
