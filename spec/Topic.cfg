CONSTANTS
  Subs = {"A", "B"}
  Buffered = {"B"}
  MaxPublish = 2
  MaxCalls = 5
  Handlers = {}
  WithDone = TRUE
SPECIFICATION Spec
INVARIANTS CloseNeverWedges MutexSane
CHECK_DEADLOCK FALSE
