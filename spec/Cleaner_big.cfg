CONSTANTS
  Inst = {1, 2}
  MaxTime = 6
  MaxSnaps = 2
  MustKeep = 2
  RemoveOld = 3
  MaxRuns = 2
SPECIFICATION Spec
PROPERTIES KeepsYoung KeepsNewest FailSafe Bounded NeverEmptiesLive
CHECK_DEADLOCK FALSE
