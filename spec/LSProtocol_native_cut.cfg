CONSTANTS
  MaxTS = 3
  MaxVal = 1
  Inst = {1, 2}
  Keys = {1}
  Native = TRUE
  MirrorDropsEmpty = FALSE
  AppVals = {1}
  MaxOps = 2
  MaxSnaps = 2
  LoadCutoff = 2
SPECIFICATION Spec
INVARIANTS TypeOK NoInvention
PROPERTIES LSNeverBackwards MergeDominates NoBounce
CHECK_DEADLOCK FALSE
