CONSTANTS
  Inst = {1, 2}
  MaxTime = 4
  MaxSnaps = 2
  MustKeep = 0
  RemoveOld = 1
  MaxRuns = 3
SPECIFICATION Spec
PROPERTIES KeepsYoung KeepsNewest FailSafe Bounded NeverEmptiesLive
CHECK_DEADLOCK FALSE
