CONSTANTS
  Inst = {1, 2}
  MaxSeq = 2
  DLLimit = 1
  DCLimit = 1
  MaxFaults = 1
  MaxPub = 3
SPECIFICATION FairSpec
INVARIANTS TokensAccounted IgnoredForGood DeliversDecodable
PROPERTIES Delivered
CHECK_DEADLOCK FALSE
