CONSTANTS
  MaxTS = 4
  MaxVal = 2
  Inst = {1, 2, 3}
  Keys = {1, 2}
  Native = TRUE
  MirrorDropsEmpty = FALSE
  AppVals = {0, 1, 2}
  MaxOps = 6
  MaxSnaps = 3
  LoadCutoff = 0
SPECIFICATION Spec
INVARIANTS TypeOK Converged NoInvention
PROPERTIES LSNeverBackwards MergeDominates NoBounce
CHECK_DEADLOCK FALSE
