----------------------------- MODULE Retention -----------------------------
(***************************************************************************)
(* C04 (configuration part): integer model of config.Sweeper               *)
(*   RetentionDuration()             config/config.go:268                  *)
(*   RetentionDurationMinusCutoff()  config/config.go:272-291              *)
(* and of the two cut-offs derived from them:                              *)
(*   sweeper:  entries with ts < t_sweep - RD are removed                  *)
(*             (syncer/sweeper/sweeper.go)                                 *)
(*   loader:   markers with ts < t_load - RDMC are not re-created          *)
(*             (syncer/utils.go:291 deletedCutoff, iterators.go:99)        *)
(* Time unit U = 36 s, so that one day = 2400 U and the /100 and *3/4 of   *)
(* the Go code are exact integer operations for whole and half days.       *)
(***************************************************************************)
EXTENDS Integers, Json, SequencesExt, TLC

CONSTANTS HalfDays,      \* retention in half days (RetentionDays = HalfDays / 2)
          PosCutoffsU,   \* retention_load_cutoff_duration in units U (zero, positive, huge)
          NegCutoffsU,   \* magnitudes of the negative ones
          Times          \* points in time, in units of 1200 U, for t_sweep <= t_load

Day == 2400
CutoffsU == PosCutoffsU \cup {0 - n : n \in NegCutoffsU}
RD(h) == h * (Day \div 2)
MinOf(a, b) == IF a < b THEN a ELSE b
RDMC(h, c) == LET r == RD(h) IN
              IF c > 0 THEN r - MinOf(c, (r * 3) \div 4)
                       ELSE r - (r \div 100)

(* the load-side retention never exceeds the sweeper's retention ...       *)
LoadNotLonger == \A h \in HalfDays, c \in CutoffsU : RDMC(h, c) <= RD(h)
(* ... and stays positive for a positive retention (never more than 75%)   *)
LoadAtLeastQuarter == \A h \in HalfDays, c \in CutoffsU : 4 * RDMC(h, c) >= RD(h)
(* hence everything the sweeper may have removed at t_sweep is refused by  *)
(* a load starting at t_load >= t_sweep: no bouncing markers               *)
NoBounceArith ==
    \A h \in HalfDays, c \in CutoffsU, ts \in Times, tl \in Times :
        ts <= tl => (ts * 1200 - RD(h)) <= (tl * 1200 - RDMC(h, c))

ASSUME LoadNotLonger
ASSUME LoadAtLeastQuarter
ASSUME NoBounceArith

Rows == {[half_days |-> h, cutoff_u |-> c, rd_u |-> RD(h), rdmc_u |-> RDMC(h, c)] : h \in HalfDays, c \in CutoffsU}
ASSUME JsonSerialize("retention_rows.json", SetToSeq(Rows))

VARIABLE x
Init == x = 0
Next == x' = x
=============================================================================
