------------------------------- MODULE LSDump -------------------------------
(***************************************************************************)
(* C06: SendOnce's dump (syncer/send.go:48-125, syncer/utils.go readDBI)   *)
(* against an application that commits multi-DBI transactions while the    *)
(* dump is running.  Native mode: the dump runs in one LMDB read           *)
(* transaction (MVCC snapshot of the transaction id current at Begin);     *)
(* shadow mode: in one write transaction, so the application cannot commit *)
(* in between.  Each application transaction writes the same counter value *)
(* into every DBI (a cross-DBI invariant), optionally deleting/re-adding a *)
(* second key.  Yield points inside the real dump: hooks.BeforeRead (after *)
(* the transaction has begun) and hooks.FilterReadDBI (after every entry). *)
(***************************************************************************)
EXTENDS Integers, Sequences, FiniteSets, TLC

CONSTANTS DBIs, MaxCommits, MaxDumps, Native

VARIABLES content,   \* current LMDB content: [DBIs -> [1..2 -> Int]]  (key -> counter, 0 = absent)
          lastTxn,
          lmdbAt,    \* history: txn id -> content
          pin,       \* txn id pinned by the running dump (0 = no dump)
          todo,      \* DBIs still to read
          snap,      \* what the dump has read so far: [DBIs -> content of that DBI or <<>>]
          phase,     \* "idle" | "reading" | "done"
          ncommits, act,
          holder,    \* "app" while the application holds the LMDB write lock with an open transaction
          called,    \* SendOnce has been called and is waiting for / holding its transaction
          dumps,     \* history: number -> time of the call of SendOnce
          time, snapTime, commitTime   \* logical clock; time the image claims; commit time per transaction
vars == <<content, lastTxn, lmdbAt, pin, todo, snap, phase, ncommits, act, holder, called, time, snapTime, commitTime, dumps>>

Keys == 1..2
Init == /\ content = [d \in DBIs |-> [k \in Keys |-> IF k = 1 THEN 1 ELSE 0]]
        /\ lastTxn = 1
        /\ lmdbAt = (1 :> content)
        /\ pin = 0 /\ todo = {} /\ snap = [d \in DBIs |-> <<>>] /\ phase = "idle"
        /\ ncommits = 0 /\ act = [name |-> "init"]
        /\ holder = "none" /\ called = FALSE /\ time = 1 /\ snapTime = 0 /\ commitTime = (1 :> 1) /\ dumps = <<>>

(* an application transaction: bump the counter in every DBI, toggle key 2 *)
AppCommit(toggle) ==
    /\ ncommits < MaxCommits
    /\ (phase \in {"reading", "done"} => Native)   \* shadow mode: the dump holds the write lock until it ends
    /\ ((called /\ ~Native) => holder = "app")     \* a waiting SendOnce gets the lock next
    /\ LET c == lastTxn + 1
           new == [d \in DBIs |-> [k \in Keys |-> IF k = 1 THEN c
                                                  ELSE IF toggle THEN (IF content[d][2] = 0 THEN c ELSE 0) ELSE content[d][2]]] IN
       /\ content' = new /\ lastTxn' = c /\ lmdbAt' = lmdbAt @@ (c :> new)
    /\ ncommits' = ncommits + 1
    /\ act' = [name |-> "app", toggle |-> toggle, held |-> holder = "app"]
    /\ holder' = "none" /\ time' = time + 1 /\ commitTime' = commitTime @@ ((lastTxn + 1) :> (time + 1))
    /\ UNCHANGED <<pin, todo, snap, phase, called, snapTime>>

(* the application opens a write transaction and keeps it open *)
AppHold ==
    /\ holder = "none" /\ ncommits < MaxCommits
    /\ (phase \in {"reading", "done"} => Native)
    /\ ~(called /\ ~Native)
    /\ holder' = "app" /\ time' = time + 1
    /\ act' = [name |-> "hold"]
    /\ UNCHANGED <<content, lastTxn, lmdbAt, pin, todo, snap, phase, ncommits, called, snapTime, commitTime>>

(* SendOnce is called; in shadow mode it has to wait for the write lock *)
Call ==
    /\ phase = "idle" /\ ~called /\ Cardinality(DOMAIN dumps) < MaxDumps
    /\ dumps' = dumps @@ ((Cardinality(DOMAIN dumps) + 1) :> time)
    /\ called' = TRUE /\ time' = time + 1
    /\ act' = [name |-> "call"]
    /\ UNCHANGED <<content, lastTxn, lmdbAt, pin, todo, snap, phase, ncommits, holder, snapTime, commitTime>>

Begin == /\ phase = "idle" /\ called /\ (Native \/ holder = "none")
         /\ snapTime' = time + 1 /\ time' = time + 1
         /\ UNCHANGED <<holder, called, commitTime>>
         /\ pin' = lastTxn /\ todo' = DBIs /\ phase' = "reading"
         /\ snap' = [d \in DBIs |-> <<>>]
         /\ act' = [name |-> "begin"]
         /\ UNCHANGED <<content, lastTxn, lmdbAt, ncommits>>

ReadDBI(d) ==   \* reads the pinned version of DBI d (the DBIs are read in name order)
    /\ phase = "reading" /\ d \in todo /\ \A e \in todo : d <= e
    /\ snap' = [snap EXCEPT ![d] = lmdbAt[pin][d]]
    /\ todo' = todo \ {d}
    /\ phase' = IF todo' = {} THEN "done" ELSE "reading"
    /\ act' = [name |-> "read", d |-> d]
    /\ UNCHANGED <<content, lastTxn, lmdbAt, pin, ncommits, holder, called, time, snapTime, commitTime>>

Finish == /\ phase = "done" /\ phase' = "idle" /\ pin' = 0
          /\ act' = [name |-> "finish", txn |-> pin, snap |-> snap]
          /\ called' = FALSE
          /\ UNCHANGED <<content, lastTxn, lmdbAt, todo, snap, ncommits, holder, time, snapTime, commitTime>>

Next == \/ ((\E t \in BOOLEAN : AppCommit(t)) \/ AppHold \/ Begin \/ (\E d \in DBIs : ReadDBI(d)) \/ Finish) /\ UNCHANGED dumps
        \/ Call
Spec == Init /\ [][Next]_vars

(* the snapshot is the complete image of ONE committed transaction *)
SnapshotIsImage == phase = "done" => \A d \in DBIs : snap[d] = lmdbAt[pin][d]
(* the time the snapshot claims is not earlier than the commit of the transaction it images *)
TimeNotBeforeContent == phase = "done" => snapTime >= commitTime[pin]
CrossDBIConsistent == phase = "done" => \A d, e \in DBIs : snap[d][1] = snap[e][1]
=============================================================================
