CONSTANTS
  NKeys = 3
  MaxLen = 3
  MaxUnsortedLen = 2
  EmptyKeys = 1
SPECIFICATION Spec
INVARIANTS MatchesRef LoopSane
CHECK_DEADLOCK FALSE
