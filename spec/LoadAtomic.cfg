CONSTANTS
  NDBI = 3
  Native = TRUE
SPECIFICATION Spec
INVARIANTS ReadersSeeWhole AbortRestores SuccessMerges
CHECK_DEADLOCK FALSE
