-------------------------------- MODULE Wire --------------------------------
(***************************************************************************)
(* C07 / C08 (decoding half): the published snapshot schema                *)
(* (snapshot/gogosnapshot/snapshot.proto) as a grammar of protobuf fields, *)
(* the content a conforming decoder must extract from ANY encoding of a    *)
(* message (fields in any order, unknown fields of every wire type at      *)
(* every nesting level, repeated scalars, split embedded messages), and    *)
(* hostile encodings that must be answered with an error.                  *)
(*                                                                         *)
(* A field is [n, wt, v, sub]: field number, wire type                     *)
(* ("varint" | "len" | "fix64" | "fix32" | "group"), a value token (for    *)
(* scalars and byte strings; tokens are strings such as "v128" or          *)
(* "b16384#k1" that the harness concretises) and, for embedded messages,   *)
(* the sequence of sub-fields.  Levels: "snap", "meta", "dbi", "kv".       *)
(***************************************************************************)
EXTENDS Integers, Sequences, FiniteSets, TLC, Json, SequencesExt

F(n, wt, v) == [n |-> n, wt |-> wt, v |-> v, sub |-> <<>>, msg |-> FALSE]
M(n, sub)   == [n |-> n, wt |-> "len", v |-> "", sub |-> sub, msg |-> TRUE]

(* ---- decoding semantics of proto3: last scalar wins, repeated fields accumulate,     *)
(* ---- embedded messages that occur more than once are merged, unknown fields skipped  *)
Sel(fs, n) == SelectSeq(fs, LAMBDA f : f.n = n)
LastV(fs, n, wt, dflt) ==
    LET s == Sel(fs, n) IN
    IF Len(s) = 0 THEN dflt ELSE s[Len(s)].v
WrongWT(fs, n, wt) == \E i \in 1..Len(fs) : fs[i].n = n /\ fs[i].wt # wt
CutTypes == {"varintcut", "fix32cut", "fix64cut", "lencut"}   \* a field whose payload ends before it is complete (the token "cK" gives the K bytes present)
HasGroup(fs) == \E i \in 1..Len(fs) : fs[i].wt = "group" \/ fs[i].wt \in CutTypes

KVBad(fs) == WrongWT(fs, 1, "len") \/ WrongWT(fs, 2, "len") \/ WrongWT(fs, 3, "fix64") \/ WrongWT(fs, 4, "varint") \/ HasGroup(fs)
KVContent(fs) == [key |-> LastV(fs, 1, "len", "b0"), val |-> LastV(fs, 2, "len", "b0"),
                  ts |-> LastV(fs, 3, "fix64", "v0"), flags |-> LastV(fs, 4, "varint", "v0")]

DBIBad(fs) == \/ WrongWT(fs, 1, "len") \/ WrongWT(fs, 2, "len") \/ WrongWT(fs, 3, "varint") \/ WrongWT(fs, 4, "len") \/ HasGroup(fs)
              \/ \E i \in 1..Len(fs) : fs[i].n = 2 /\ fs[i].msg /\ KVBad(fs[i].sub)
DBIContent(fs) == [name |-> LastV(fs, 1, "len", "b0"), flags |-> LastV(fs, 3, "varint", "v0"),
                   transform |-> LastV(fs, 4, "len", "b0"),
                   entries |-> [i \in 1..Len(Sel(fs, 2)) |-> KVContent(Sel(fs, 2)[i].sub)]]

RECURSIVE Concat(_)
Concat(ss) == IF Len(ss) = 0 THEN <<>> ELSE ss[1] \o Concat(Tail(ss))
MetaFields(fs) == Concat([i \in 1..Len(Sel(fs, 2)) |-> Sel(fs, 2)[i].sub])   \* merged embedded messages
MetaBad(ms) == WrongWT(ms, 1, "len") \/ WrongWT(ms, 2, "len") \/ WrongWT(ms, 3, "len") \/ WrongWT(ms, 4, "varint")
               \/ WrongWT(ms, 5, "fix64") \/ WrongWT(ms, 7, "len") \/ WrongWT(ms, 8, "varint") \/ HasGroup(ms)
MetaContent(ms) == [gen |-> LastV(ms, 1, "len", "b0"), inst |-> LastV(ms, 2, "len", "b0"), host |-> LastV(ms, 3, "len", "b0"),
                    txn |-> LastV(ms, 4, "varint", "v0"), ts |-> LastV(ms, 5, "fix64", "v0"),
                    db |-> LastV(ms, 7, "len", "b0"), from |-> LastV(ms, 8, "varint", "v0")]

SnapBad(fs) == \/ WrongWT(fs, 1, "varint") \/ WrongWT(fs, 4, "varint") \/ WrongWT(fs, 2, "len") \/ WrongWT(fs, 3, "len") \/ HasGroup(fs)
               \/ MetaBad(MetaFields(fs))
               \/ \E i \in 1..Len(fs) : fs[i].n = 3 /\ DBIBad(fs[i].sub)
Content(fs) ==
    IF SnapBad(fs) THEN [ok |-> FALSE]
    ELSE [ok |-> TRUE, fmt |-> LastV(fs, 1, "varint", "v0"), compat |-> LastV(fs, 4, "varint", "v0"),
          meta |-> MetaContent(MetaFields(fs)),
          dbis |-> [i \in 1..Len(Sel(fs, 3)) |-> DBIContent(Sel(fs, 3)[i].sub)]]

(* ---- a family of messages ---- *)
KV1 == <<F(1, "len", "b1#k1"), F(2, "len", "b127#v1"), F(3, "fix64", "vTS"), F(4, "varint", "v1")>>
KV2 == <<F(1, "len", "b128#k2"), F(3, "fix64", "vMaxU64")>>                     \* no value, no flags
KV3 == <<F(1, "len", "b511#k3"), F(2, "len", "b16384#v3"), F(4, "varint", "vMaxU32")>>
KV4 == <<F(1, "len", "b2#k4"), F(2, "len", "b2M#v4"), F(3, "fix64", "v1")>>
DBIa == <<F(1, "len", "b4#n1"), F(3, "varint", "v8"), M(2, KV1), M(2, KV2)>>
DBIb == <<F(1, "len", "b511#n2"), M(2, KV3), F(4, "len", "b15#tr")>>
DBIc == <<F(1, "len", "b1#n3")>>                                                 \* a DBI without entries
DBId == <<F(1, "len", "b3#n4"), F(3, "varint", "v16384"), M(2, KV4)>>
Meta1 == <<F(1, "len", "b2#g"), F(2, "len", "b5#i"), F(3, "len", "b9#h"), F(4, "varint", "v300"), F(5, "fix64", "vTS"), F(7, "len", "b7#d")>>
Base1 == <<F(1, "varint", "v3"), F(4, "varint", "v2"), M(2, Meta1), M(3, DBIa), M(3, DBIb)>>
Base2 == <<F(1, "varint", "v3"), M(2, Meta1), M(3, DBIc), M(3, DBId)>>
Base3 == <<F(1, "varint", "v1")>>
Bases == {Base1, Base2, Base3}
(* sizes beyond the buffer growth steps of the encoder (10 MiB, then doubling) and contents that compress far     *)
(* better than 1:10 (zero bytes); exported as they are, without re-encodings                                        *)
KVbig   == <<F(1, "len", "b3#kb"), F(2, "len", "b11M#vb"), F(3, "fix64", "v5")>>
KVnear  == <<F(1, "len", "b3#kn"), F(2, "len", "b9M#vn"), F(3, "fix64", "v6")>>
KVzero  == <<F(1, "len", "b3#kz"), F(2, "len", "z2M#vz"), F(3, "fix64", "v7")>>
KVzero2 == <<F(1, "len", "z64#kz2"), F(2, "len", "z300000#vz2")>>
BigBases == { <<F(1, "varint", "v3"), M(2, Meta1), M(3, <<F(1, "len", "b2#nb"), M(2, KVbig)>>)>>,                 \* the first entry already exceeds the first buffer
              <<F(1, "varint", "v3"), M(2, Meta1), M(3, <<F(1, "len", "b2#nc"), M(2, KV1), M(2, KVnear), M(2, KVbig), M(2, KV2)>>)>>,  \* a nearly full 10 MiB buffer, then 11 MiB
              <<F(1, "varint", "v3"), M(2, Meta1), M(3, <<F(1, "len", "b2#nz"), M(2, KVzero), M(2, KVzero2), M(2, KV1)>>)>> }          \* compresses better than 1:100

(* unknown fields of every wire type, with 1- and 2-byte tags *)
Unknowns == {F(15, "varint", "v128"), F(16, "varint", "vMaxU64"), F(2047, "len", "b0#u"), F(9, "len", "b200#u2"),
             F(10, "fix32", "v7"), F(11, "fix64", "v9"), F(6, "varint", "v1"), F(6, "len", "b6#eh")}

Rev(s) == [i \in 1..Len(s) |-> s[Len(s) + 1 - i]]
Rotate(s) == IF Len(s) < 2 THEN s ELSE Tail(s) \o <<Head(s)>>
InsAt(s, i, f) == SubSeq(s, 1, i) \o <<f>> \o SubSeq(s, i + 1, Len(s))

(* re-encodings at one level; rep = number of the repeated field, whose occurrences keep their order *)
Reps(s, rep) == SelectSeq(s, LAMBDA f : f.n = rep)
Others(s, rep) == SelectSeq(s, LAMBDA f : f.n # rep)
Vary(s, rep) == {s, Reps(s, rep) \o Rev(Others(s, rep)), Rev(Others(s, rep)) \o Reps(s, rep), Rotate(Others(s, rep)) \o Reps(s, rep)}
                \cup {InsAt(s, i, u) : i \in {0, Len(s) \div 2, Len(s)}, u \in Unknowns}

(* apply variation set generator G to the sub-message of the k-th field numbered n *)
SubVariants(fs, n) ==
    UNION {{[i \in 1..Len(fs) |-> IF i = j THEN [fs[i] EXCEPT !.sub = s] ELSE fs[i]] : s \in Vary(fs[j].sub, 0)} :
           j \in {x \in 1..Len(fs) : fs[x].n = n /\ fs[x].msg}}

(* all single-site re-encodings of a base message: top level, meta, a DBI, a KV inside a DBI *)
KVVariants(fs) ==
    UNION {{[i \in 1..Len(fs) |-> IF i = j THEN [fs[i] EXCEPT !.sub = d] ELSE fs[i]] :
                d \in {x \in SubVariants(fs[j].sub, 2) : TRUE}} :
           j \in {x \in 1..Len(fs) : fs[x].n = 3 /\ fs[x].msg}}
DBIVariantsAt(fs, j) == {[i \in 1..Len(fs) |-> IF i = j THEN [fs[i] EXCEPT !.sub = d] ELSE fs[i]] : d \in Vary(fs[j].sub, 2)}
DBIVariants(fs) == UNION {DBIVariantsAt(fs, j) : j \in {x \in 1..Len(fs) : fs[x].n = 3 /\ fs[x].msg}}
MetaVariantsAt(fs, j) == {[i \in 1..Len(fs) |-> IF i = j THEN [fs[i] EXCEPT !.sub = d] ELSE fs[i]] : d \in Vary(fs[j].sub, 0)}
MetaVariants(fs) == UNION {MetaVariantsAt(fs, j) : j \in {x \in 1..Len(fs) : fs[x].n = 2 /\ fs[x].msg}}
(* repeated scalar (last wins) and a split meta message (merged) *)
Special(fs) == {fs \o <<F(1, "varint", "v2")>>, <<F(4, "varint", "v1")>> \o fs,
                fs \o <<M(2, <<F(3, "len", "b1#h2"), F(8, "varint", "v5")>>)>>}
Variants(b) == Vary(b, 3) \cup MetaVariants(b) \cup DBIVariants(b) \cup KVVariants(b) \cup Special(b)

(* ---- laws checked by TLC on the model ---- *)
SameContentUnder(b, vs) == \A v \in vs : Content(v) = Content(b)
ReencodingInvariant == \A b \in Bases : SameContentUnder(b, Vary(b, 3) \cup MetaVariants(b) \cup DBIVariants(b) \cup KVVariants(b))
SpecialOK == /\ Content(Base1 \o <<F(1, "varint", "v2")>>).fmt = "v2"
             /\ Content(<<F(4, "varint", "v1")>> \o Base1).compat = "v2"
             /\ Content(Base1 \o <<M(2, <<F(3, "len", "b1#h2"), F(8, "varint", "v5")>>)>>).meta.host = "b1#h2"
             /\ Content(Base1 \o <<M(2, <<F(3, "len", "b1#h2"), F(8, "varint", "v5")>>)>>).meta.inst = "b5#i"
ASSUME ReencodingInvariant
ASSUME SpecialOK

(* ---- hostile encodings: must be answered with an error (C08) ---- *)
Hostile == {
    <<F(1, "len", "b1#x")>>,                                   \* wrong wire type for formatVersion
    <<F(1, "varint", "v3"), F(3, "varint", "v1")>>,             \* DBI as varint
    <<F(1, "varint", "v3"), M(3, <<F(1, "varint", "v1")>>)>>,    \* DBI name as varint
    <<F(1, "varint", "v3"), M(3, <<F(3, "len", "b1#x")>>)>>,     \* DBI flags as bytes
    <<F(1, "varint", "v3"), M(3, <<M(2, <<F(3, "varint", "v1")>>)>>)>>,  \* KV timestamp as varint
    <<F(1, "varint", "v3"), M(3, <<M(2, <<F(1, "fix64", "v1")>>)>>)>>,   \* KV key as fixed64
    <<F(1, "varint", "v3"), M(2, <<F(4, "len", "b1#x")>>)>>,     \* meta txn id as bytes
    <<F(1, "varint", "v3"), F(9, "group", "v0")>>,
    <<F(1, "varint", "v3"), M(3, <<F(9, "group", "v0")>>)>>,
    <<F(1, "varint", "v3"), M(3, <<M(2, <<F(9, "group", "v0")>>)>>)>> }
(* truncated last field at every nesting level, the enclosing lengths being consistent: a fixed-width field, a   *)
(* varint or a length-delimited field of a known or an unknown number whose payload ends early                   *)
CutFields == {F(n, "fix64cut", c) : n \in {9, 3, 5}, c \in {"c0", "c1", "c7"}}
             \cup {F(n, "fix32cut", c) : n \in {9, 10}, c \in {"c0", "c3"}}
             \cup {F(n, "varintcut", c) : n \in {9, 4, 1}, c \in {"c1", "c9"}}
             \cup {F(n, "lencut", c) : n \in {9, 2, 1}, c \in {"c0", "c4"}}
KVk == F(1, "len", "b2#k")
Truncated == UNION {{ <<F(1, "varint", "v3"), M(3, <<F(1, "len", "b4#n"), M(2, <<KVk, t>>)>>)>>,                       \* in a KV entry
                      <<F(1, "varint", "v3"), M(3, <<F(1, "len", "b4#n"), M(2, <<KVk>>), M(2, <<KVk, t>>), F(3, "varint", "v8")>>)>>,  \* in a KV entry, fields of the DBI following
                      <<F(1, "varint", "v3"), M(3, <<F(1, "len", "b4#n"), M(2, <<KVk>>), t>>)>>,                       \* in a DBI
                      <<F(1, "varint", "v3"), M(2, <<F(1, "len", "b2#g"), t>>), M(3, DBIc)>>,                           \* in the meta message
                      <<F(1, "varint", "v3"), M(3, DBIc), t>> } : t \in CutFields}                                    \* at the top level
HostileRejected == \A h \in Hostile \cup Truncated : ~Content(h).ok
ASSUME HostileRejected

Rows == UNION {{[tree |-> v, want |-> Content(v)] : v \in Variants(b)} : b \in Bases}
        \cup {[tree |-> b, want |-> Content(b)] : b \in BigBases}
HostileRows == {[tree |-> h, want |-> Content(h)] : h \in Hostile}
TruncatedRows == {[tree |-> h, want |-> Content(h)] : h \in Truncated}
ASSUME JsonSerialize("wire_rows.json", SetToSeq(Rows))
ASSUME JsonSerialize("wire_hostile_rows.json", SetToSeq(HostileRows))
ASSUME JsonSerialize("wire_truncated_rows.json", SetToSeq(TruncatedRows))

VARIABLE x
Init == x = 0
Next == x' = x
=============================================================================
