--------------------------- MODULE ReceiverTrace ---------------------------
(***************************************************************************)
(* Trace validation for Receiver.tla: a recorded run of the real Receiver  *)
(* (real goroutines) is a behaviour of the specification.  The harness     *)
(* performs one external action at a time, lets the receiver's goroutines  *)
(* run until they are all blocked, and records the observable state.       *)
(* Between two recorded events the downloader processes take unlogged      *)
(* internal steps; an event is consumed only when no internal step is      *)
(* enabled and the specification's state matches the recorded observation. *)
(***************************************************************************)
EXTENDS Receiver, Json

VARIABLES t, l
Traces == JsonDeserialize("recv_traces.json")
NT == Len(Traces)

tvars == <<vars, t, l>>
Settled == \A i \in Inst : ~ENABLED Internal(i)

Parked == {i \in Inst : dpc[i] = "load"}
ObsOK(o) ==
    /\ \A i \in Inst : pending[i] = o.pending[i]
    /\ \A i \in Inst : (dpc[i] = "load") = (o.parked[i] # 0)
    /\ \A i \in Inst : dpc[i] = "load" => dcur[i] = o.parked[i]
    /\ DLLimit - dlFree = o.dl
    /\ DCLimit - dcFree = o.dc

Ev == Traces[t][l]
Act(e) ==
    CASE e.ev = "publish" -> \E g \in BOOLEAN : g = e.good /\ Publish(e.i, g)
      [] e.ev = "remove"  -> Remove(e.i, e.seq) /\ UNCHANGED <<npub, published>>
      [] e.ev = "list"    -> IF e.ok THEN ListOK /\ UNCHANGED <<npub, published>> ELSE ListFails /\ UNCHANGED <<npub, published>>
      [] e.ev = "release" -> DlLoad(e.i, e.fail) /\ UNCHANGED <<npub, published>>
      [] e.ev = "next"    -> IF e.i = "" THEN (\A j \in Inst : pending[j] = 0) /\ UNCHANGED vars
                                         ELSE Next(e.i) /\ delivered'[e.i] = e.seq /\ UNCHANGED <<npub, published>>
      [] e.ev = "close"   -> Close /\ UNCHANGED <<npub, published>>

TInit == Init /\ t = 1 /\ l = 1
Consume ==
    /\ t <= NT /\ l <= Len(Traces[t])
    /\ Settled
    /\ (l > 1 => ObsOK(Traces[t][l - 1].obs))
    /\ Act(Ev)
    /\ l' = l + 1 /\ t' = t
Silent == /\ t <= NT
          /\ \E i \in Inst : Internal(i)
          /\ UNCHANGED <<npub, published, t, l>>
NextTrace ==
    /\ t <= NT /\ l = Len(Traces[t]) + 1
    /\ Settled /\ ObsOK(Traces[t][l - 1].obs)
    /\ t' = t + 1 /\ l' = 1
    /\ bucket' = {} /\ bad' = {} /\ ignored' = {} /\ corrupt' = {}
    /\ lastSeen' = [i \in Inst |-> 0] /\ lastNotified' = [i \in Inst |-> 0]
    /\ signal' = [i \in Inst |-> FALSE] /\ started' = [i \in Inst |-> FALSE]
    /\ dpc' = [i \in Inst |-> "wait"] /\ dcur' = [i \in Inst |-> 0] /\ dlast' = [i \in Inst |-> 0]
    /\ dlFree' = DLLimit /\ dcFree' = DCLimit
    /\ pending' = [i \in Inst |-> 0] /\ merging' = <<>> /\ delivered' = [i \in Inst |-> 0]
    /\ nfaults' = 0 /\ npub' = 0 /\ published' = {}
TNext == Consume \/ Silent \/ NextTrace
TSpec == TInit /\ [][TNext]_tvars

(* acceptance: all traces consumed (reported by TLC as a violation of NotAccepted) *)
NotAccepted == t <= NT
(* progress indicator for diagnosing a rejection *)
Progress == TLCSet(1, IF TLCGet(1) < t * 10000 + l THEN t * 10000 + l ELSE TLCGet(1))
ASSUME TLCSet(1, 0)
=============================================================================
