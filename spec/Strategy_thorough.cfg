CONSTANTS
  NKeys = 4
  MaxLen = 4
  MaxUnsortedLen = 3
  EmptyKeys = 0
SPECIFICATION Spec
INVARIANTS MatchesRef LoopSane
CHECK_DEADLOCK FALSE
