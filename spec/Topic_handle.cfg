CONSTANTS
  Subs = {"A", "H"}
  Buffered = {}
  Handlers = {"H"}
  MaxPublish = 2
  MaxCalls = 5
  WithDone = TRUE
SPECIFICATION Spec
INVARIANTS CloseNeverWedges MutexSane
CHECK_DEADLOCK FALSE
