-------------------------------- MODULE Topic --------------------------------
(***************************************************************************)
(* C17: utils/topics (Topic.Publish / Subscription.Next / Close).          *)
(* Processes: one publisher and the subscribers; each process makes        *)
(* blocking calls.  External actions start a call (the harness tells a     *)
(* goroutine to make it); internal actions are the steps inside the calls  *)
(* up to their blocking points: the topic mutex, the rendezvous on an      *)
(* unbuffered subscriber channel, the one-slot buffer of a sendLast        *)
(* subscriber.  WithDone = TRUE models Publish selecting on the            *)
(* subscriber's done channel (a closing subscriber releases a blocked      *)
(* publisher); FALSE models the plain blocking send.                       *)
(* Handlers are subscribers driven by Topic.Handle (topic.go:108-120):     *)
(* Subscribe, then Next / callback in a loop; a failing callback or a      *)
(* cancelled context ends the loop and the deferred Close unsubscribes.    *)
(***************************************************************************)
EXTENDS Integers, Sequences, FiniteSets, TLC

CONSTANTS Subs,        \* subscribers
          Buffered,    \* subset of Subs created with sendLast (channel capacity 1)
          MaxPublish, MaxCalls, WithDone,
          Handlers     \* subset of Subs \ Buffered: consumed through Topic.Handle

VARIABLES mu,        \* holder of the topic mutex: "none" | "pub" | a subscriber
          ppc,       \* publisher: "idle" | "wantMu" | "sending" | "returned"
          todo,      \* sequence of subscribers the running Publish still has to send to (map iteration order: arbitrary but fixed per call)
          spc,       \* [Subs -> "idle" | "next" | "returned"]   the subscriber's own goroutine (Next calls)
          cpc,       \* [Subs -> "idle" | "wantMu" | "returned"] the Close call (possibly from another goroutine)
          registered,\* subscribers still in the topic's map
          closing,   \* subscribers whose done channel is closed (Close has begun)
          buf,       \* [Subs -> number of values in the channel buffer]
          got,       \* [Subs -> values received so far]
          lastRet,   \* [Subs -> "none" | "value" | "closed"]  result of the last Next
          npub, ncalls,
          hst,       \* [Handlers -> "idle" | "wantSub" | "running" | "closing" | "returned"]
          hfail,     \* [Handlers -> 0..MaxPublish]: the callback fails on its hfail-th value (0: never)
          hcancel    \* handlers whose context has been cancelled
hvars == <<hst, hfail, hcancel>>
vars == <<mu, ppc, todo, spc, cpc, registered, closing, buf, got, lastRet, npub, ncalls, hst, hfail, hcancel>>

Init == /\ mu = "none" /\ ppc = "idle" /\ todo = <<>>
        /\ spc = [s \in Subs |-> "idle"] /\ cpc = [s \in Subs |-> "idle"] /\ registered = Subs \ Handlers /\ closing = {}
        /\ hst = [s \in Handlers |-> "idle"] /\ hfail = [s \in Handlers |-> 0] /\ hcancel = {}
        /\ buf = [s \in Subs |-> 0] /\ got = [s \in Subs |-> 0] /\ lastRet = [s \in Subs |-> "none"]
        /\ npub = 0 /\ ncalls = 0

(* ---- external: a process starts a call ---- *)
StartPublish == /\ ppc \in {"idle", "returned"} /\ npub < MaxPublish /\ ncalls < MaxCalls
                /\ ppc' = "wantMu" /\ npub' = npub + 1 /\ ncalls' = ncalls + 1
                /\ UNCHANGED <<mu, todo, spc, cpc, registered, closing, buf, got, lastRet, hst, hfail, hcancel>>
StartNext(s) == /\ s \notin Handlers /\ spc[s] \in {"idle", "returned"} /\ ncalls < MaxCalls
                /\ s \notin closing                      \* Next after Close has begun is a usage error (it never returns)
                /\ spc' = [spc EXCEPT ![s] = "next"] /\ ncalls' = ncalls + 1
                /\ UNCHANGED <<mu, ppc, todo, cpc, registered, closing, buf, got, lastRet, npub, hst, hfail, hcancel>>
StartClose(s) == /\ s \notin Handlers /\ cpc[s] = "idle" /\ ncalls < MaxCalls     \* at any moment, also while the subscriber sits in Next
                 /\ cpc' = [cpc EXCEPT ![s] = "wantMu"] /\ ncalls' = ncalls + 1
                 /\ closing' = closing \cup {s}          \* the done channel is closed first, without the topic mutex
                 /\ UNCHANGED <<mu, ppc, todo, spc, registered, buf, got, lastRet, npub, hst, hfail, hcancel>>
StartHandle(s, k) ==   \* Topic.Handle is called with a callback that fails on its k-th value (k = 0: never)
    /\ hst[s] = "idle" /\ ncalls < MaxCalls
    /\ hst' = [hst EXCEPT ![s] = "wantSub"] /\ hfail' = [hfail EXCEPT ![s] = k] /\ ncalls' = ncalls + 1
    /\ UNCHANGED <<mu, ppc, todo, spc, cpc, registered, closing, buf, got, lastRet, npub, hcancel>>
CancelHandle(s) ==     \* the context handed to Handle is cancelled
    /\ hst[s] \in {"wantSub", "running"} /\ s \notin hcancel /\ ncalls < MaxCalls
    /\ hcancel' = hcancel \cup {s} /\ ncalls' = ncalls + 1
    /\ UNCHANGED <<mu, ppc, todo, spc, cpc, registered, closing, buf, got, lastRet, npub, hst, hfail>>
External == \/ StartPublish \/ \E s \in Subs : StartNext(s) \/ StartClose(s)
            \/ \E s \in Handlers : CancelHandle(s) \/ \E k \in 0..MaxPublish : StartHandle(s, k)

(* ---- internal steps ---- *)
Perms(S) == {p \in [1..Cardinality(S) -> S] : \A i, j \in 1..Cardinality(S) : i # j => p[i] # p[j]}
PubLock == /\ ppc = "wantMu" /\ mu = "none"
           /\ mu' = "pub" /\ ppc' = "sending" /\ todo' \in Perms(registered)
           /\ UNCHANGED <<spc, cpc, registered, closing, buf, got, lastRet, npub, ncalls, hst, hfail, hcancel>>
(* send to one of the remaining subscribers (map iteration order is arbitrary) *)
PubSendRendezvous(s) ==
    /\ ppc = "sending" /\ todo # <<>> /\ s = Head(todo) /\ s \notin Buffered /\ spc[s] = "next"
    /\ todo' = Tail(todo)
    /\ spc' = [spc EXCEPT ![s] = "returned"] /\ got' = [got EXCEPT ![s] = @ + 1]
    /\ lastRet' = [lastRet EXCEPT ![s] = "value"]
    /\ UNCHANGED <<mu, ppc, cpc, registered, closing, buf, npub, ncalls, hst, hfail, hcancel>>
PubSendBuffered(s) ==
    /\ ppc = "sending" /\ todo # <<>> /\ s = Head(todo) /\ s \in Buffered /\ buf[s] = 0
    /\ todo' = Tail(todo) /\ buf' = [buf EXCEPT ![s] = 1]
    /\ UNCHANGED <<mu, ppc, spc, cpc, registered, closing, got, lastRet, npub, ncalls, hst, hfail, hcancel>>
PubSkipClosing(s) ==   \* only with the done channel: a closing subscriber does not block the publisher
    /\ WithDone /\ ppc = "sending" /\ todo # <<>> /\ s = Head(todo) /\ s \in closing
    /\ todo' = Tail(todo)
    /\ UNCHANGED <<mu, ppc, spc, cpc, registered, closing, buf, got, lastRet, npub, ncalls, hst, hfail, hcancel>>
PubUnlock == /\ ppc = "sending" /\ todo = <<>>
             /\ mu' = "none" /\ ppc' = "returned"
             /\ UNCHANGED <<todo, spc, cpc, registered, closing, buf, got, lastRet, npub, ncalls, hst, hfail, hcancel>>
NextFromBuffer(s) ==
    /\ spc[s] = "next" /\ buf[s] > 0
    /\ buf' = [buf EXCEPT ![s] = 0] /\ got' = [got EXCEPT ![s] = @ + 1]
    /\ spc' = [spc EXCEPT ![s] = "returned"] /\ lastRet' = [lastRet EXCEPT ![s] = "value"]
    /\ UNCHANGED <<mu, ppc, todo, cpc, registered, closing, npub, ncalls, hst, hfail, hcancel>>
NextSeesClosed(s) ==   \* Next on a subscription that has been closed returns an error
    /\ spc[s] = "next" /\ s \notin registered /\ buf[s] = 0
    /\ spc' = [spc EXCEPT ![s] = "returned"] /\ lastRet' = [lastRet EXCEPT ![s] = "closed"]
    /\ UNCHANGED <<mu, ppc, todo, cpc, registered, closing, buf, got, npub, ncalls, hst, hfail, hcancel>>
CloseLock(s) ==
    /\ cpc[s] = "wantMu" /\ mu = "none"
    /\ registered' = registered \ {s}
    /\ cpc' = [cpc EXCEPT ![s] = "returned"]
    /\ UNCHANGED <<mu, ppc, todo, spc, closing, buf, got, lastRet, npub, ncalls, hst, hfail, hcancel>>
(* ---- Topic.Handle ---- *)
HandleSubscribe(s) ==   \* Subscribe(false) takes the topic mutex
    /\ hst[s] = "wantSub" /\ mu = "none"
    /\ registered' = registered \cup {s} /\ hst' = [hst EXCEPT ![s] = "running"]
    /\ spc' = [spc EXCEPT ![s] = "next"]
    /\ UNCHANGED <<mu, ppc, todo, cpc, closing, buf, got, lastRet, npub, ncalls, hfail, hcancel>>
HandleCallback(s) ==    \* a value was received: the callback runs; on success the loop calls Next again
    /\ hst[s] = "running" /\ spc[s] = "returned" /\ lastRet[s] = "value"
    /\ IF hfail[s] # 0 /\ got[s] >= hfail[s]
       THEN /\ hst' = [hst EXCEPT ![s] = "closing"] /\ closing' = closing \cup {s}     \* return err -> deferred sub.Close()
            /\ cpc' = [cpc EXCEPT ![s] = "wantMu"] /\ lastRet' = [lastRet EXCEPT ![s] = "cberr"] /\ spc' = spc
       ELSE /\ spc' = [spc EXCEPT ![s] = "next"] /\ UNCHANGED <<hst, closing, cpc, lastRet>>
    /\ UNCHANGED <<mu, ppc, todo, registered, buf, got, npub, ncalls, hfail, hcancel>>
HandleCancelled(s) ==   \* Next(ctx) returns the context's error
    /\ hst[s] = "running" /\ spc[s] = "next" /\ s \in hcancel
    /\ spc' = [spc EXCEPT ![s] = "returned"] /\ lastRet' = [lastRet EXCEPT ![s] = "cancelled"]
    /\ hst' = [hst EXCEPT ![s] = "closing"] /\ closing' = closing \cup {s} /\ cpc' = [cpc EXCEPT ![s] = "wantMu"]
    /\ UNCHANGED <<mu, ppc, todo, registered, buf, got, npub, ncalls, hfail, hcancel>>
HandleReturn(s) ==
    /\ hst[s] = "closing" /\ cpc[s] = "returned"
    /\ hst' = [hst EXCEPT ![s] = "returned"]
    /\ UNCHANGED <<mu, ppc, todo, spc, cpc, registered, closing, buf, got, lastRet, npub, ncalls, hfail, hcancel>>

Internal == \/ PubLock \/ PubUnlock
            \/ \E s \in Subs : PubSendRendezvous(s) \/ PubSendBuffered(s) \/ PubSkipClosing(s)
                               \/ NextFromBuffer(s) \/ NextSeesClosed(s) \/ CloseLock(s)
            \/ \E s \in Handlers : HandleSubscribe(s) \/ HandleCallback(s) \/ HandleCancelled(s) \/ HandleReturn(s)

Next_ == External \/ Internal
Spec == Init /\ [][Next_]_vars

---------------------------------------------------------------------------
Settled == ~ENABLED Internal
InCall == (IF ppc \in {"wantMu", "sending"} THEN {"pub"} ELSE {}) \cup {s \in Subs \ Handlers : spc[s] = "next"}
          \cup {s \in Handlers : hst[s] \in {"wantSub", "running", "closing"}}
InClose == {s \in Subs : cpc[s] = "wantMu"}
(* a subscriber that closes its subscription never wedges the publisher or itself: once settled, a running
   Close has returned, and a Publish is only waiting for subscribers that neither receive nor close *)
CloseNeverWedges ==
    Settled => /\ \A s \in Subs : cpc[s] = "wantMu" =>
                     \* the only legitimate reason: the publisher is blocked on ANOTHER subscriber that neither receives nor closes
                     (ppc = "sending" /\ todo # <<>> /\ Head(todo) # s /\ Head(todo) \notin closing)
               /\ (ppc = "sending" => todo # <<>> /\ Head(todo) \notin closing)
               \* a Handle whose callback failed or whose context was cancelled returns (it is not left behind subscribed)
               /\ \A s \in Handlers : hst[s] = "closing" => (ppc = "sending" /\ todo # <<>> /\ Head(todo) # s /\ Head(todo) \notin closing)
               /\ \A s \in Handlers : (hst[s] = "running" /\ s \in hcancel) => spc[s] # "next"
(* the mutex is free whenever nobody is inside Publish *)
MutexSane == (mu = "pub") = (ppc = "sending")
=============================================================================
