-------------------------------- MODULE Topic --------------------------------
(***************************************************************************)
(* C17: utils/topics (Topic.Publish / Subscription.Next / Close).          *)
(* Processes: one publisher and the subscribers; each process makes        *)
(* blocking calls.  External actions start a call (the harness tells a     *)
(* goroutine to make it); internal actions are the steps inside the calls  *)
(* up to their blocking points: the topic mutex, the rendezvous on an      *)
(* unbuffered subscriber channel, the one-slot buffer of a sendLast        *)
(* subscriber.  WithDone = TRUE models Publish selecting on the            *)
(* subscriber's done channel (a closing subscriber releases a blocked      *)
(* publisher); FALSE models the plain blocking send.                       *)
(***************************************************************************)
EXTENDS Integers, Sequences, FiniteSets, TLC

CONSTANTS Subs,        \* subscribers
          Buffered,    \* subset of Subs created with sendLast (channel capacity 1)
          MaxPublish, MaxCalls, WithDone

VARIABLES mu,        \* holder of the topic mutex: "none" | "pub" | a subscriber
          ppc,       \* publisher: "idle" | "wantMu" | "sending" | "returned"
          todo,      \* sequence of subscribers the running Publish still has to send to (map iteration order: arbitrary but fixed per call)
          spc,       \* [Subs -> "idle" | "next" | "returned"]   the subscriber's own goroutine (Next calls)
          cpc,       \* [Subs -> "idle" | "wantMu" | "returned"] the Close call (possibly from another goroutine)
          registered,\* subscribers still in the topic's map
          closing,   \* subscribers whose done channel is closed (Close has begun)
          buf,       \* [Subs -> number of values in the channel buffer]
          got,       \* [Subs -> values received so far]
          lastRet,   \* [Subs -> "none" | "value" | "closed"]  result of the last Next
          npub, ncalls
vars == <<mu, ppc, todo, spc, cpc, registered, closing, buf, got, lastRet, npub, ncalls>>

Init == /\ mu = "none" /\ ppc = "idle" /\ todo = <<>>
        /\ spc = [s \in Subs |-> "idle"] /\ cpc = [s \in Subs |-> "idle"] /\ registered = Subs /\ closing = {}
        /\ buf = [s \in Subs |-> 0] /\ got = [s \in Subs |-> 0] /\ lastRet = [s \in Subs |-> "none"]
        /\ npub = 0 /\ ncalls = 0

(* ---- external: a process starts a call ---- *)
StartPublish == /\ ppc \in {"idle", "returned"} /\ npub < MaxPublish /\ ncalls < MaxCalls
                /\ ppc' = "wantMu" /\ npub' = npub + 1 /\ ncalls' = ncalls + 1
                /\ UNCHANGED <<mu, todo, spc, cpc, registered, closing, buf, got, lastRet>>
StartNext(s) == /\ spc[s] \in {"idle", "returned"} /\ ncalls < MaxCalls
                /\ s \notin closing                      \* Next after Close has begun is a usage error (it never returns)
                /\ spc' = [spc EXCEPT ![s] = "next"] /\ ncalls' = ncalls + 1
                /\ UNCHANGED <<mu, ppc, todo, cpc, registered, closing, buf, got, lastRet, npub>>
StartClose(s) == /\ cpc[s] = "idle" /\ ncalls < MaxCalls     \* at any moment, also while the subscriber sits in Next
                 /\ cpc' = [cpc EXCEPT ![s] = "wantMu"] /\ ncalls' = ncalls + 1
                 /\ closing' = closing \cup {s}          \* the done channel is closed first, without the topic mutex
                 /\ UNCHANGED <<mu, ppc, todo, spc, registered, buf, got, lastRet, npub>>
External == StartPublish \/ \E s \in Subs : StartNext(s) \/ StartClose(s)

(* ---- internal steps ---- *)
Perms(S) == {p \in [1..Cardinality(S) -> S] : \A i, j \in 1..Cardinality(S) : i # j => p[i] # p[j]}
PubLock == /\ ppc = "wantMu" /\ mu = "none"
           /\ mu' = "pub" /\ ppc' = "sending" /\ todo' \in Perms(registered)
           /\ UNCHANGED <<spc, cpc, registered, closing, buf, got, lastRet, npub, ncalls>>
(* send to one of the remaining subscribers (map iteration order is arbitrary) *)
PubSendRendezvous(s) ==
    /\ ppc = "sending" /\ todo # <<>> /\ s = Head(todo) /\ s \notin Buffered /\ spc[s] = "next"
    /\ todo' = Tail(todo)
    /\ spc' = [spc EXCEPT ![s] = "returned"] /\ got' = [got EXCEPT ![s] = @ + 1]
    /\ lastRet' = [lastRet EXCEPT ![s] = "value"]
    /\ UNCHANGED <<mu, ppc, cpc, registered, closing, buf, npub, ncalls>>
PubSendBuffered(s) ==
    /\ ppc = "sending" /\ todo # <<>> /\ s = Head(todo) /\ s \in Buffered /\ buf[s] = 0
    /\ todo' = Tail(todo) /\ buf' = [buf EXCEPT ![s] = 1]
    /\ UNCHANGED <<mu, ppc, spc, cpc, registered, closing, got, lastRet, npub, ncalls>>
PubSkipClosing(s) ==   \* only with the done channel: a closing subscriber does not block the publisher
    /\ WithDone /\ ppc = "sending" /\ todo # <<>> /\ s = Head(todo) /\ s \in closing
    /\ todo' = Tail(todo)
    /\ UNCHANGED <<mu, ppc, spc, cpc, registered, closing, buf, got, lastRet, npub, ncalls>>
PubUnlock == /\ ppc = "sending" /\ todo = <<>>
             /\ mu' = "none" /\ ppc' = "returned"
             /\ UNCHANGED <<todo, spc, cpc, registered, closing, buf, got, lastRet, npub, ncalls>>
NextFromBuffer(s) ==
    /\ spc[s] = "next" /\ buf[s] > 0
    /\ buf' = [buf EXCEPT ![s] = 0] /\ got' = [got EXCEPT ![s] = @ + 1]
    /\ spc' = [spc EXCEPT ![s] = "returned"] /\ lastRet' = [lastRet EXCEPT ![s] = "value"]
    /\ UNCHANGED <<mu, ppc, todo, cpc, registered, closing, npub, ncalls>>
NextSeesClosed(s) ==   \* Next on a subscription that has been closed returns an error
    /\ spc[s] = "next" /\ s \notin registered /\ buf[s] = 0
    /\ spc' = [spc EXCEPT ![s] = "returned"] /\ lastRet' = [lastRet EXCEPT ![s] = "closed"]
    /\ UNCHANGED <<mu, ppc, todo, cpc, registered, closing, buf, got, npub, ncalls>>
CloseLock(s) ==
    /\ cpc[s] = "wantMu" /\ mu = "none"
    /\ registered' = registered \ {s}
    /\ cpc' = [cpc EXCEPT ![s] = "returned"]
    /\ UNCHANGED <<mu, ppc, todo, spc, closing, buf, got, lastRet, npub, ncalls>>
Internal == PubLock \/ PubUnlock
            \/ \E s \in Subs : PubSendRendezvous(s) \/ PubSendBuffered(s) \/ PubSkipClosing(s)
                               \/ NextFromBuffer(s) \/ NextSeesClosed(s) \/ CloseLock(s)

Next_ == External \/ Internal
Spec == Init /\ [][Next_]_vars

---------------------------------------------------------------------------
Settled == ~ENABLED Internal
InCall == (IF ppc \in {"wantMu", "sending"} THEN {"pub"} ELSE {}) \cup {s \in Subs : spc[s] = "next"}
InClose == {s \in Subs : cpc[s] = "wantMu"}
(* a subscriber that closes its subscription never wedges the publisher or itself: once settled, a running
   Close has returned, and a Publish is only waiting for subscribers that neither receive nor close *)
CloseNeverWedges ==
    Settled => /\ \A s \in Subs : cpc[s] = "wantMu" =>
                     \* the only legitimate reason: the publisher is blocked on ANOTHER subscriber that neither receives nor closes
                     (ppc = "sending" /\ todo # <<>> /\ Head(todo) # s /\ Head(todo) \notin closing)
               /\ (ppc = "sending" => todo # <<>> /\ Head(todo) \notin closing)
(* the mutex is free whenever nobody is inside Publish *)
MutexSane == (mu = "pub") = (ppc = "sending")
=============================================================================
