CONSTANTS
  MaxTS = 5
  MaxVal = 2
  Inst = {1, 2}
  Keys = {1}
  Native = FALSE
  MirrorDropsEmpty = FALSE
  AppVals = {1, 2}
  MaxOps = 3
  MaxSnaps = 2
  LoadCutoff = 0
SPECIFICATION Spec
INVARIANTS TypeOK Converged NoInvention
PROPERTIES LSNeverBackwards MergeDominates NoBounce MirrorFaithful CaptureFaithful
CHECK_DEADLOCK FALSE
