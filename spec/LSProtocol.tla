----------------------------- MODULE LSProtocol -----------------------------
(***************************************************************************)
(* Protocol level of Lightning Stream: several instances, one shared       *)
(* bucket, each exported step of the syncer as one atomic action.          *)
(*                                                                         *)
(*   AppPut / AppDel   the local application commits a transaction         *)
(*   Upload(i)         Syncer.SendOnce  (syncer/send.go:20)                *)
(*   MergeSnap(i, s)   Syncer.LoadOnce of any snapshot in the bucket       *)
(*                     (syncer/sync.go:348)                                *)
(*                                                                         *)
(* Native mode: db[i] is the application's DBI whose values carry the LS   *)
(* header; the application chooses the timestamps.  Shadow mode: app[i] is *)
(* the application's plain DBI, db[i] the shadow DBI; LS stamps changes    *)
(* with its own clock when it captures them (mainToShadow) and mirrors     *)
(* the merged state back (shadowToMain).                                   *)
(*                                                                         *)
(* MirrorDropsEmpty = TRUE models the code as it is: shadowToMain removes  *)
(* application entries whose value is empty (finding F3, DESIGN.md s.6).   *)
(***************************************************************************)
EXTENDS LSData

CONSTANTS Inst,              \* set of instances
          Keys,              \* keys of the one application DBI
          Native,            \* TRUE: native schema, FALSE: shadow mode
          MirrorDropsEmpty,  \* shadow mode: see above
          AppVals,           \* values the application writes (subset of Val)
          MaxOps,            \* bound on application operations
          MaxSnaps,          \* bound on snapshots per instance
          LoadCutoff         \* stale-marker cut-off applied by MergeSnap (0 = sweeper disabled)

VARIABLES db,        \* [Inst -> [Keys -> MaybeStored]]
          app,       \* [Inst -> [Keys -> -1 \cup Val]]   (shadow mode; mirrors db in native mode)
          bucket,    \* set of [inst, seq, img]
          clock,     \* the shared monotone clock of shadow mode = last stamp handed out
          written,   \* history: set of <<key, version>> ever written anywhere
          lastW,     \* native: last timestamp instance i's application used for key k (-1 none)
          nops,      \* number of application operations so far
          mergedSeq, \* history: mergedSeq[i][j] = highest seq of j's snapshots merged by i since i's application last wrote
          dirty,     \* dirty[i]: db[i] (or app[i]) changed since i's last upload
          pendingLocal, \* pendingLocal[i]: LMDB's last transaction id is beyond the syncer's lastSyncedTxnID,
                     \* i.e. LoadOnce will compute localChanged (sync.go:372) and capture first
          act        \* last action
vars == <<db, app, bucket, clock, written, lastW, nops, mergedSeq, dirty, pendingLocal, act>>

SnapsOf(i)   == {s \in bucket : s.inst = i}
NewestSeq(i) == Cardinality(SnapsOf(i))
Newest(i)    == CHOOSE s \in SnapsOf(i) : s.seq = NewestSeq(i)

EmptyStore == [k \in Keys |-> Absent]
EmptyApp   == [k \in Keys |-> -1]

(* what shadowToMain leaves in the application DBI *)
Mirror(store) == IF MirrorDropsEmpty
                 THEN [k \in Keys |-> IF LiveProjection(store)[k] = 0 THEN -1 ELSE LiveProjection(store)[k]]
                 ELSE LiveProjection(store)

Init == /\ db = [i \in Inst |-> EmptyStore]
        /\ app = [i \in Inst |-> EmptyApp]
        /\ bucket = {}
        /\ clock = 0
        /\ written = {}
        /\ lastW = [i \in Inst |-> [k \in Keys |-> -1]]
        /\ nops = 0
        /\ mergedSeq = [i \in Inst |-> [j \in Inst |-> 0]]
        /\ dirty = [i \in Inst |-> FALSE]
        /\ pendingLocal = [i \in Inst |-> FALSE]
        /\ act = [name |-> "init"]

---------------------------------------------------------------------------
(* Application writes.                                                     *)
NativeWrite(i, k, v) ==     \* v is a StoredVersion: live or marker, timestamp chosen by the application
    /\ Native /\ nops < MaxOps
    /\ v.ts > lastW[i][k]                       \* per instance and key strictly increasing (DESIGN.md s.7)
    /\ (~v.del => v.val \in AppVals)
    /\ db' = [db EXCEPT ![i][k] = v]
    /\ app' = [app EXCEPT ![i] = LiveProjection(db'[i])]
    /\ written' = written \cup {<<k, v>>}
    /\ lastW' = [lastW EXCEPT ![i][k] = v.ts]
    /\ nops' = nops + 1
    /\ dirty' = [dirty EXCEPT ![i] = TRUE]
    /\ mergedSeq' = [mergedSeq EXCEPT ![i] = [j \in Inst |-> 0]]   \* merges before a local write do not count
    /\ act' = [name |-> "nativewrite", i |-> i, k |-> k, v |-> v]
    /\ pendingLocal' = [pendingLocal EXCEPT ![i] = TRUE]
    /\ UNCHANGED <<bucket, clock>>

ShadowPut(i, k, val) ==
    /\ ~Native /\ nops < MaxOps
    /\ val \in AppVals /\ app[i][k] # val
    /\ app' = [app EXCEPT ![i][k] = val]
    /\ nops' = nops + 1
    /\ dirty' = [dirty EXCEPT ![i] = TRUE]
    /\ mergedSeq' = [mergedSeq EXCEPT ![i] = [j \in Inst |-> 0]]
    /\ act' = [name |-> "shadowput", i |-> i, k |-> k, val |-> val]
    /\ pendingLocal' = [pendingLocal EXCEPT ![i] = TRUE]
    /\ UNCHANGED <<db, bucket, clock, written, lastW>>

ShadowDel(i, k) ==
    /\ ~Native /\ nops < MaxOps
    /\ app[i][k] # -1
    /\ app' = [app EXCEPT ![i][k] = -1]
    /\ nops' = nops + 1
    /\ dirty' = [dirty EXCEPT ![i] = TRUE]
    /\ mergedSeq' = [mergedSeq EXCEPT ![i] = [j \in Inst |-> 0]]
    /\ act' = [name |-> "shadowdel", i |-> i, k |-> k]
    /\ pendingLocal' = [pendingLocal EXCEPT ![i] = TRUE]
    /\ UNCHANGED <<db, bucket, clock, written, lastW>>

---------------------------------------------------------------------------
(* The capture at the start of an LS write transaction in shadow mode      *)
(* (send.go:84-89, sync.go:386-391): new stamp = one fresh clock value.    *)
Captured(i, now) == IF Native THEN db[i] ELSE MainToShadow(app[i], db[i], now)
NewVersions(old, new) == {<<k, new[k]>> : k \in {kk \in Keys : new[kk] # old[kk]}}

CanStamp == Native \/ clock < MaxTS

Upload(i) ==
    /\ NewestSeq(i) < MaxSnaps /\ CanStamp
    /\ LET now == clock + 1
           d   == Captured(i, now) IN
       /\ db' = [db EXCEPT ![i] = d]
       /\ clock' = IF Native THEN clock ELSE now
       /\ written' = written \cup NewVersions(db[i], d)
       /\ bucket' = bucket \cup {[inst |-> i, seq |-> NewestSeq(i) + 1, img |-> Image(d)]}
       /\ act' = [name |-> "upload", i |-> i, now |-> IF Native THEN 0 ELSE now,
                  changed |-> d # db[i], img |-> Image(d)]
    /\ dirty' = [dirty EXCEPT ![i] = IF Native THEN FALSE ELSE app[i] # Mirror(db'[i])]
    /\ pendingLocal' = [pendingLocal EXCEPT ![i] = FALSE]     \* lastSynced := the id SendOnce returns
    /\ UNCHANGED <<app, lastW, nops, mergedSeq>>

MergeSnap(i, s) ==
    /\ s \in bucket /\ CanStamp
    /\ LET now == clock + 1
           d   == IF pendingLocal[i] THEN Captured(i, now) ELSE db[i]   \* sync.go:386
           ctx == [fmt |-> 3, cutoff |-> LoadCutoff, defTS |-> 0]
           m   == MergeImage(d, s.img, ctx) IN
       /\ db' = [db EXCEPT ![i] = m]
       /\ app' = [app EXCEPT ![i] = IF Native THEN LiveProjection(m) ELSE Mirror(m)]
       /\ clock' = IF Native THEN clock ELSE now
       /\ written' = written \cup NewVersions(db[i], d)
       /\ dirty' = [dirty EXCEPT ![i] = dirty[i] \/ m # db[i]]
       /\ mergedSeq' = [mergedSeq EXCEPT ![i][s.inst] = IF s.seq > @ THEN s.seq ELSE @]
       /\ act' = [name |-> "merge", i |-> i, from |-> s.inst, seq |-> s.seq,
                  now |-> IF Native THEN 0 ELSE now,
                  captured |-> d # db[i], changed |-> m # db[i] \/ app'[i] # app[i]]
    /\ UNCHANGED <<bucket, lastW, nops, pendingLocal>>   \* localChanged => lastSynced is not bumped (sync.go:241)

Next == \/ \E i \in Inst, k \in Keys, v \in StoredVersion : NativeWrite(i, k, v)
        \/ \E i \in Inst, k \in Keys, val \in Val : ShadowPut(i, k, val)
        \/ \E i \in Inst, k \in Keys : ShadowDel(i, k)
        \/ \E i \in Inst : Upload(i)
        \/ \E i \in Inst : \E s \in bucket : MergeSnap(i, s)

Spec == Init /\ [][Next]_vars

---------------------------------------------------------------------------
TypeOK == /\ \A i \in Inst, k \in Keys : db[i][k] \in MaybeStored /\ app[i][k] \in {-1} \cup Val
          /\ clock \in 0..MaxTS

(* C01.  Quiescent: every instance's newest snapshot images its current    *)
(* state and every instance has merged the newest snapshot of every other  *)
(* instance that has published one.                                        *)
HasData(i) == \E k \in Keys : ~IsAbsent(db[i][k]) \/ app[i][k] # -1
Quiescent ==
    /\ \A i \in Inst : ~dirty[i] /\ (HasData(i) => NewestSeq(i) > 0)
    /\ \A i \in Inst : NewestSeq(i) > 0 => Newest(i).img = Image(db[i])
    /\ \A i, j \in Inst : i # j => mergedSeq[i][j] = NewestSeq(j)

WrittenFor(k) == {w[2] : w \in {x \in written : x[1] = k}}
Winner(k) == IF WrittenFor(k) = {} THEN Absent ELSE LWWWinner(WrittenFor(k))

Converged ==
    Quiescent =>
        /\ \A i, j \in Inst : db[i] = db[j] /\ app[i] = app[j]
        /\ \A i \in Inst, k \in Keys : db[i][k] = Winner(k)

(* Every stored version was written by someone (no invented data).         *)
NoInvention == \A i \in Inst, k \in Keys : IsAbsent(db[i][k]) \/ db[i][k] \in WrittenFor(k)

(* C02/C03/C04 at the protocol level: no LS step replaces a stored version *)
(* by one that does not beat it (so a deleted key is not resurrected by an *)
(* older version and a newer local write is not destroyed).                *)
IsLS(a) == a.name \in {"upload", "merge"}
LSNeverBackwards ==
    [][IsLS(act') => \A i \in Inst, k \in Keys :
            db'[i][k] # db[i][k] => Beats(db'[i][k], db[i][k])]_vars

(* C04: after merging a snapshot the store dominates every version in it   *)
(* (in particular a deletion at T leaves a marker at >= T or a newer live  *)
(* version), markers older than the load cut-off excepted when the key is  *)
(* absent.                                                                 *)
MergeDominates ==
    [][act'.name = "merge" =>
        LET i == act'.i
            s == CHOOSE x \in bucket : x.inst = act'.from /\ x.seq = act'.seq IN
        \A k \in DOMAIN s.img :
            \/ BeatsOrEq(db'[i][k], s.img[k])
            \/ (s.img[k].del /\ s.img[k].ts < LoadCutoff /\ IsAbsent(db'[i][k]))]_vars

(* C04: swept markers do not bounce - a merge never creates a marker older *)
(* than the load cut-off on an instance that has no entry for the key.     *)
NoBounce ==
    [][act'.name = "merge" =>
        \A k \in Keys : LET i == act'.i IN
            (IsAbsent(db[i][k]) /\ (Native \/ app[i][k] = -1) /\ ~IsAbsent(db'[i][k]) /\ db'[i][k].del)
                => db'[i][k].ts >= LoadCutoff]_vars

(* C11: after every LS step of instance i in shadow mode the application   *)
(* DBI holds exactly the live entries of the merged state.                 *)
MirrorFaithful ==
    [][(~Native /\ act'.name = "merge") => app'[act'.i] = LiveProjection(db'[act'.i])]_vars
CaptureFaithful ==
    [][(~Native /\ IsLS(act')) =>
         LET i == act'.i
             d == IF act'.name = "upload" THEN db'[i] ELSE Captured(i, act'.now) IN
         (act'.name = "upload" \/ pendingLocal[i]) =>
         \A k \in Keys :
            \* every net change of the application is a new version stamped now
            /\ (app[i][k] # LiveProjection(db[i])[k] =>
                    d[k] = IF app[i][k] = -1 THEN Tomb(act'.now) ELSE Live(act'.now, app[i][k]))
            \* untouched entries keep their version
            /\ (app[i][k] = LiveProjection(db[i])[k] => d[k] = db[i][k])]_vars

(* C10 (protocol part): a merge that changes nothing is flagged as such;   *)
(* the harness checks that the real LoadOnce records no transaction then.  *)
=============================================================================
